#!/bin/bash
# seeded_verify.sh <id> <srcdir>   - confirm a sub-agent's change in a fresh scratch worktree:
# pristine: tests pass + demo exits 0; patched: tests still pass + demo exits 1.
id=$1; src=$2
wt=/tmp/seedchk_$id
git -C /repo worktree add -q --detach $wt HEAD || exit 9
cd $wt
export PYTHONPATH=$wt/src
p_tests=$(timeout 600 /venv/bin/python -m pytest -q -p no:cacheprovider 2>&1 | tail -1)
timeout 120 /venv/bin/python $src/demo.py > /tmp/seed_demo_pristine_$id.log 2>&1; p_demo=$?
git apply $src/patch.diff; ap=$?
m_tests=$(timeout 600 /venv/bin/python -m pytest -q -p no:cacheprovider 2>&1 | tail -1)
timeout 120 /venv/bin/python $src/demo.py > /tmp/seed_demo_patched_$id.log 2>&1; m_demo=$?
cd /; git -C /repo worktree remove --force $wt
echo "{\"id\":\"$id\",\"apply_rc\":$ap,\"pristine_tests\":\"$p_tests\",\"pristine_demo_rc\":$p_demo,\"patched_tests\":\"$m_tests\",\"patched_demo_rc\":$m_demo}"
