#!/bin/bash
# seeded_eval_scratch.sh <id> <patch> <prop> [tier]  - run the check against a scratch worktree carrying the patch
id=$1; patch=$2; prop=$3; tier=${4:-quick}
wt=/tmp/seedev_$id
git -C /repo worktree add -q --detach $wt HEAD || exit 9
git -C $wt apply $patch || { git -C /repo worktree remove --force $wt; exit 8; }
PMSIM_REPO=$wt PMSIM_EVIDENCE_DIR=/tmp/seedev_ev_$id PMSIM_REPLAY_DIR=/tmp/seedev_rp_$id timeout 3000 /venv/bin/python /verif/check $prop --tier $tier > /tmp/seedev_$id.log 2>&1
rc=$?
git -C /repo worktree remove --force $wt
echo "$id $prop rc=$rc $(grep -c '^VIOLATION' /tmp/seedev_$id.log) violations; clauses: $(grep '^  C' /tmp/seedev_$id.log | cut -d: -f1 | sort | uniq -c | tr '\n' ' ')"
rm -rf /tmp/seedev_ev_$id /tmp/seedev_rp_$id
