#!/venv/bin/python
"""find_repro.py <prop> <rig> <clause> [max_idx] [substr]  (PMSIM_REPO selects the tree)
Scans run indices until a violation of <clause> appears (optionally whose
detail contains <substr>), minimises it and prints the scenario as JSON."""
import json, sys
sys.path.insert(0, "/verif")
from pmsim import driver
from pmsim.util import derive
prop, rig, clause = sys.argv[1:4]
mx = int(sys.argv[4]) if len(sys.argv) > 4 else 2000
sub = sys.argv[5] if len(sys.argv) > 5 else ""
mod = driver.rig_module(rig)
for i in range(mx):
    rs = derive(0, prop, rig, i)
    sc = mod.generate_for(rs, "quick", prop) if hasattr(mod, "generate_for") else mod.generate(rs, "quick")
    res = mod.execute(sc)
    vs = [v for v in res["violations"] if v["clause"] == clause and sub in v["detail"]]
    if vs:
        m = driver.minimise(mod.focus(sc, vs[0]), clause, budget=1500)
        r = driver.execute_scenario(m)
        d = [v for v in r["violations"] if v["clause"] == clause][0]["detail"]
        print(json.dumps({"idx": i, "clause": clause, "detail": d, "scenario": m}))
        sys.exit(0)
print(json.dumps({"error": "not found"}))
sys.exit(1)
