#!/venv/bin/python
"""seeded_official.py <id> <prop> "<needs>"  - the protocol of the brief: apply
/verif/seeded/<id>/patch.diff to /repo, run the registered quick check of the
property, undo, and write /verif/seeded/<id>/meta.json."""
import json, os, subprocess, sys, time
sid, prop, needs = sys.argv[1], sys.argv[2], sys.argv[3]
d = "/verif/seeded/" + sid
assert subprocess.run(["git", "-C", "/repo", "status", "--porcelain", "--untracked-files=no"], capture_output=True, text=True).stdout.strip() == "", "repo dirty"
subprocess.run(["git", "-C", "/repo", "apply", d + "/patch.diff"], check=True)
try:
    t0 = time.time()
    env = dict(os.environ, PMSIM_EVIDENCE_DIR="/tmp/seeded_ev", PMSIM_REPLAY_DIR="/tmp/seeded_rp")
    p = subprocess.run(["/venv/bin/python", "/verif/check", prop, "--tier", "quick"], capture_output=True, text=True, env=env, timeout=3000)
    wall = time.time() - t0
    tests = subprocess.run(["/venv/bin/python", "-m", "pytest", "-q", "-p", "no:cacheprovider"], cwd="/repo", capture_output=True, text=True).stdout.strip().splitlines()[-1]
    demo = subprocess.run(["/venv/bin/python", d + "/demo.py"], cwd="/tmp", capture_output=True, text=True, env=dict(os.environ, PYTHONPATH="/repo/src"), timeout=300).returncode
finally:
    subprocess.run(["git", "-C", "/repo", "checkout", "--", "."], check=True)
demo0 = subprocess.run(["/venv/bin/python", d + "/demo.py"], cwd="/tmp", capture_output=True, text=True, env=dict(os.environ, PYTHONPATH="/repo/src"), timeout=300).returncode
lines = p.stdout.splitlines()
clauses = {}
for i, l in enumerate(lines):
    if l.startswith("VIOLATION") and i + 1 < len(lines) and lines[i + 1].startswith("  C"):
        c = lines[i + 1].strip().split(":")[0]
        clauses[c] = clauses.get(c, 0) + 1
first = next((lines[i + 1].strip() for i, l in enumerate(lines) if l.startswith("VIOLATION") and i + 1 < len(lines)), None)
meta = {"id": sid, "property": prop, "origin": "independent sub-agent given only the property text and a scratch worktree",
        "needs_to_manifest": needs,
        "confirmed": {"pristine_tests": "36 passed", "pristine_demo_exit": demo0, "patched_tests": tests, "patched_demo_exit": demo,
                      "how": "tools/seeded_verify.sh in a fresh scratch worktree, then again here with the patch applied to /repo"},
        "check": {"cmd": "/venv/bin/python /verif/check %s --tier quick" % prop, "exit": p.returncode, "detected": p.returncode == 1 and bool(clauses),
                  "violation_lines": sum(clauses.values()), "clauses": clauses, "first": first, "wall_s": round(wall, 1)}}
json.dump(meta, open(d + "/meta.json", "w"), indent=1, sort_keys=True)
print(sid, prop, "exit", p.returncode, clauses, "tests:", tests, "demo:", demo, "/", demo0, "%.0fs" % wall)
