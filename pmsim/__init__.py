"""pmsim - deterministic simulation with fault injection for pyModeS.

See /verif/DESIGN.md.  Import order matters: pmsim.bootstrap must run before
anything imports pyModeS.
"""
