"""Wire formats (Beast binary, AVR raw, Skysense): serialisers that also return
byte spans.  The spans *are* the reference model for C16: a frame is "done" once
the delivered prefix covers its last byte and "closed" once it also covers the
start of its successor (Beast: 0x1A + type byte; Skysense: '$'; raw: done ==
closed, the ';').  No code is shared with pyModeS.

Frame dictionaries (all JSON-able):
  beast    {"k": "1"|"2"|"3"|"4", "ts": 12 hex, "sig": int, "body": hex}
  raw      {"txt": literal hex text as sent, "sep": "", "\n" or "\r\n"}
  skysense {"body": 28 hex (short frames zero padded), "ts": 12 hex, "rs": 6 hex}
"""

ESC = 0x1A


def _esc(bs, out, escapes, base):
    for b in bs:
        if b == ESC:
            escapes.append(base + len(out))  # offset of the first half of the pair
            out.append(ESC)
            out.append(ESC)
        else:
            out.append(b)


class Stream(object):
    """Serialised stream + structure."""

    __slots__ = ("fmt", "data", "spans", "expect", "escapes", "fields", "need")

    def __init__(self, fmt):
        self.fmt = fmt
        self.data = b""
        self.spans = []    # (start, end) per *Mode S* frame, end exclusive
        self.expect = []   # upper-case hex per Mode S frame
        self.escapes = []  # offsets of first byte of each escaped pair (beast)
        self.fields = []   # (offset, label) structural marks for cut classes
        self.need = []     # offset the prefix must reach for frame i to be "closed"

    def done(self, plen):
        n = 0
        for (s, e) in self.spans:
            if e <= plen:
                n += 1
            else:
                break
        return n

    def closed(self, plen):
        n = 0
        for x in self.need:
            if x <= plen:
                n += 1
            else:
                break
        return n


def ser_beast(frames, sentinel=True):
    st = Stream("beast")
    out = bytearray()
    all_spans = []
    for f in frames:
        start = len(out)
        out.append(ESC)
        out.append(ord(f["k"]))
        st.fields.append((start, "lead"))
        st.fields.append((start + 1, "type"))
        st.fields.append((len(out), "ts"))
        _esc(bytes.fromhex(f["ts"]), out, st.escapes, 0)
        st.fields.append((len(out), "sig"))
        _esc(bytes([f["sig"]]), out, st.escapes, 0)
        st.fields.append((len(out), "body"))
        _esc(bytes.fromhex(f["body"]), out, st.escapes, 0)
        end = len(out)
        all_spans.append((start, end, f))
    if sentinel:
        s = len(out)
        out.append(ESC)
        out.append(0x33)
        st.fields.append((s, "lead"))
        st.fields.append((s + 1, "type"))
    total = len(out)
    for idx, (s, e, f) in enumerate(all_spans):
        if f["k"] in ("2", "3"):
            st.spans.append((s, e))
            st.expect.append(f["body"].upper())
            # successor start: next frame's 0x1A and its type byte
            st.need.append(e + 2 if (e + 2 <= total) else total + 1)
    st.data = bytes(out)
    return st


def ser_raw(frames, sentinel=True):
    st = Stream("raw")
    out = bytearray()
    for f in frames:
        start = len(out)
        st.fields.append((start, "lead"))
        out += b"*"
        st.fields.append((len(out), "body"))
        out += f["txt"].encode("ascii")
        st.fields.append((len(out), "semi"))
        out += b";"
        end = len(out)
        out += f.get("sep", "").encode("ascii")
        st.spans.append((start, end))
        st.expect.append(f["txt"].upper())
        st.need.append(end)
    if sentinel:
        out += b"*"
    st.data = bytes(out)
    return st


def ser_skysense(frames, sentinel=True):
    st = Stream("skysense")
    out = bytearray()
    for f in frames:
        start = len(out)
        st.fields.append((start, "lead"))
        out.append(0x24)
        st.fields.append((len(out), "body"))
        body = bytes.fromhex(f["body"])
        assert len(body) == 14
        out += body
        st.fields.append((len(out), "ts"))
        out += bytes.fromhex(f["ts"])
        st.fields.append((len(out), "sig"))
        out += bytes.fromhex(f["rs"])
        end = len(out)
        st.spans.append((start, end))
        if body[0] >> 7:
            st.expect.append(f["body"].upper())
        else:
            st.expect.append(f["body"][:14].upper())
    total = len(out) + (1 if sentinel else 0)
    for (s, e) in st.spans:
        st.need.append(e + 1 if e + 1 <= total else total + 1)
    if sentinel:
        out.append(0x24)
    st.data = bytes(out)
    return st


def serialise(fmt, frames, sentinel=True):
    if fmt == "beast":
        return ser_beast(frames, sentinel)
    if fmt == "raw":
        return ser_raw(frames, sentinel)
    if fmt == "skysense":
        return ser_skysense(frames, sentinel)
    raise ValueError(fmt)


def skysense_ts(sec, nano, lock=1):
    """Encode the 48-bit Skysense timestamp: lock(1) sec(17) nano(30)."""
    v = ((lock & 1) << 47) | ((sec & 0x1FFFF) << 30) | (nano & 0x3FFFFFFF)
    return "%012X" % v


def cut_classes(st, cuts):
    """Abstract class of each cut position (for history signatures and reach
    probes)."""
    marks = sorted(st.fields)
    esc = set(st.escapes)
    out = []
    import bisect

    offs = [m[0] for m in marks]
    starts = set(s for s, _ in st.spans)
    for c in cuts:
        if (c - 1) in esc:
            out.append("in-escape")
            continue
        i = bisect.bisect_right(offs, c) - 1
        if i < 0:
            out.append("pre")
            continue
        off, lab = marks[i]
        if c == off:
            if lab == "lead":
                out.append("boundary")
            else:
                out.append("before-" + lab)
        else:
            if lab == "lead":
                out.append("after-lead")
            else:
                out.append("in-" + lab)
    return out


# ---------------------------------------------------------------------------
# Frame content generators (used by generate(); they draw from the rng passed in)

SHORT_DFS = [0, 4, 5, 11, 0, 4, 5, 11, 1, 2, 3, 6, 7, 8, 9, 10, 12, 13, 14, 15]
LONG_DFS = [17, 17, 17, 18, 18, 20, 20, 21, 21, 16, 19, 22, 23, 24, 25, 26, 27, 28, 29, 30, 31]


def gen_body(rng, long, hot, p_hot):
    """Mode S frame body with the DF consistent with the length; every other
    byte free, biased toward the 'hot' byte values of the wire format."""
    n = 14 if long else 7
    df = rng.choice(LONG_DFS if long else SHORT_DFS)
    b = bytearray(rng.randrange(256) for _ in range(n))
    mode = rng.random()
    if mode < 0.15:
        b = bytearray([0] * n)
    elif mode < 0.25:
        b = bytearray([0xFF] * n)
    for i in range(n):
        if rng.random() < p_hot:
            b[i] = rng.choice(hot)
    if hot and rng.random() < 0.25:
        # a run of two or three hot bytes somewhere, possibly at the very end
        L = rng.choice([2, 3])
        pos = rng.choice([1, n - L, rng.randrange(1, n - L + 1)])
        for i in range(pos, pos + L):
            b[i] = hot[0]
    if hot and rng.random() < 0.15:
        b[n - 1] = hot[0]
    low = b[0] & 7
    b[0] = ((df << 3) | low) & 0xFF
    # a short frame may legitimately start with the hot byte (0x1A -> DF3, 0x24 -> DF4)
    if not long and hot and rng.random() < 0.15:
        for hb in hot:
            if hb >> 7 == 0:
                b[0] = hb
                break
    return bytes(b)


def gen_beast_frame(rng, p_hot):
    hot = [0x1A, 0x1A, 0x1A, 0x31, 0x32, 0x33, 0x34]
    r = rng.random()
    if r < 0.08:
        k, body = "1", bytes(rng.choice(hot) if rng.random() < p_hot else rng.randrange(256) for _ in range(2))
    elif r < 0.16:
        k, body = "4", bytes(rng.choice(hot) if rng.random() < p_hot else rng.randrange(256) for _ in range(14))
    elif r < 0.40:
        k, body = "2", gen_body(rng, False, hot, p_hot)
    else:
        k, body = "3", gen_body(rng, True, hot, p_hot)
    ts = bytearray(rng.randrange(256) for _ in range(6))
    for i in range(6):
        if rng.random() < p_hot:
            ts[i] = 0x1A
    r = rng.random()
    if r < 0.03:
        ts = bytearray(bytes.fromhex("FF004D4C4154"))   # the synthetic "MLAT" time stamp mlat-client/dump1090 loop back
    elif r < 0.05:
        ts = bytearray(rng.choice([b"\x00" * 6, b"\xff" * 6]))
    sig = 0x1A if rng.random() < max(p_hot, 0.1) else rng.randrange(256)
    if rng.random() < 0.04:
        sig = 0
    return {"k": k, "ts": bytes(ts).hex().upper(), "sig": sig, "body": body.hex().upper()}


def gen_raw_frame(rng, p_hot):
    long = rng.random() < 0.7
    body = gen_body(rng, long, [], 0.0).hex()
    c = rng.random()
    if c < 0.4:
        txt = body.upper()
    elif c < 0.8:
        txt = body.lower()
    else:
        txt = "".join(ch.upper() if rng.random() < 0.5 else ch.lower() for ch in body)
    sep = rng.choice(["", "\n", "\r\n", "\n", "\r\n"])
    return {"txt": txt, "sep": sep}


def gen_skysense_frame(rng, p_hot, sec=None, nano=None):
    hot = [0x24]
    long = rng.random() < 0.7
    body = gen_body(rng, long, hot, p_hot)
    if not long:
        body = body + bytes(7)
    if sec is None:
        sec = rng.randrange(86400)
        nano = rng.randrange(1000000000)
    ts = bytearray(bytes.fromhex(skysense_ts(sec, nano, rng.randrange(2))))
    rs = bytearray(rng.randrange(256) for _ in range(3))
    if rng.random() < p_hot * 3:
        ts[rng.randrange(6)] = 0x24
    if rng.random() < p_hot * 3:
        rs[rng.randrange(3)] = 0x24
    return {"body": body.hex().upper(), "ts": bytes(ts).hex().upper(), "rs": bytes(rs).hex().upper()}
