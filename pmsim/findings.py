"""Known findings (committed file /verif/known_findings.json; never written at
run time).

Entry:
  {"id": "...", "property": "C16", "status": "open"|"fixed", "commit": sha|null,
   "clause": "C16.a", "rig": "r1a", "match": "<name of a matcher below>",
   "what": "...", "reproducer": {scenario}}

* open  : the reproducer is replayed on every run; if it still fails its clause
          the check prints KNOWN-FINDING; a *minimised* violation found by the
          exploration is attributed to the finding iff the matcher (a structural
          predicate on the minimised scenario) accepts it.  Everything else is a
          VIOLATION.
* fixed : suppresses nothing; the reproducer is a regression scenario that must
          pass.
"""
import json
import os

VERIF = os.path.dirname(os.path.dirname(os.path.abspath(__file__)))
PATH = os.path.join(VERIF, "known_findings.json")


def load():
    if not os.path.exists(PATH):
        return []
    return json.load(open(PATH))


# --- structural matchers -----------------------------------------------------
# Each takes (finding, minimised scenario, violation) and returns bool.  They are
# deliberately narrow: same rig, same clause, and the structural feature that
# defines the defect.

MATCHERS = {}


def matcher(name):
    def deco(f):
        MATCHERS[name] = f
        return f
    return deco


def attribute(findings, sc, vio):
    for f in findings:
        if f.get("status") != "open":
            continue
        if f.get("clause") != vio["clause"] or f.get("rig") != sc.get("rig"):
            continue
        m = MATCHERS.get(f.get("match"))
        if m is None:
            continue
        try:
            if m(f, sc, vio):
                return f
        except Exception:
            continue
    return None
