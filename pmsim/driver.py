"""Seeded exploration driver: seeds -> scenarios -> executions on N processes,
violation minimisation, fresh-interpreter replay, known-finding matching,
evidence."""
import faulthandler
import importlib
import json
import multiprocessing
import os
import subprocess
import sys
import time as _walltime  # wall clock is used for budgets and evidence only
from concurrent.futures import ProcessPoolExecutor, as_completed

from .util import derive, Stats, canon

VERIF = os.path.dirname(os.path.dirname(os.path.abspath(__file__)))
PY = sys.executable

# property -> rigs serving it
RIGS = {
    "C16": ["r1a", "r1b", "r3"],
    "C17": ["r2", "r3"],
    "C19": ["r4a", "r4b"],
}

# runs per (tier, rig, property); sized on 16 cores (see DESIGN section 9)
PLAN = {
    "quick": {("C16", "r1a"): 4800, ("C16", "r1b"): 8000, ("C16", "r3"): 640,
              ("C17", "r2"): 6400, ("C17", "r3"): 800,
              ("C19", "r4a"): 24000, ("C19", "r4b"): 2400},
    "thorough": {("C16", "r1a"): 150000, ("C16", "r1b"): 400000, ("C16", "r3"): 40000,
                 ("C17", "r2"): 200000, ("C17", "r3"): 60000,
                 ("C19", "r4a"): 800000, ("C19", "r4b"): 200000},
}
WALL_CAP = {"quick": 150.0, "thorough": 2700.0}
RUN_WATCHDOG_S = 300


def rig_module(name):
    return importlib.import_module("pmsim.rigs." + name)


def available_rigs(prop):
    out = []
    for r in RIGS[prop]:
        if os.path.exists(os.path.join(VERIF, "pmsim", "rigs", r + ".py")):
            out.append(r)
    return out


def run_seed_of(base_seed, prop, rig, idx):
    return derive(base_seed, prop, rig, idx)


def _worker(args):
    prop, rig, tier, base_seed, lo, hi, deadline = args
    faulthandler.enable()
    mod = rig_module(rig)
    stats = Stats()
    vios = []
    nruns = 0
    sim_us = 0
    t0 = _walltime.time()
    for idx in range(lo, hi):
        if _walltime.time() > deadline:
            break
        rs = run_seed_of(base_seed, prop, rig, idx)
        faulthandler.dump_traceback_later(RUN_WATCHDOG_S, exit=True)
        try:
            sc = mod.generate(rs, tier) if not hasattr(mod, "generate_for") else mod.generate_for(rs, tier, prop)
            res = mod.execute(sc)
        finally:
            faulthandler.cancel_dump_traceback_later()
        nruns += 1
        sim_us += res.get("sim_us", 0)
        stats.merge(res["stats"])
        for v in res["violations"]:
            if v["clause"].split(".")[0] != prop:
                # a rig shared by two properties reports both; each check only
                # owns its own clauses
                continue
            if len(vios) < 12:
                vios.append({"run_seed": rs, "idx": idx, "rig": rig, "clause": v["clause"],
                             "detail": v["detail"], "scenario": mod.focus(sc, v), "digest": res["digest"]})
            stats.c["violating_runs"] += 1
    return {"stats": stats, "vios": vios, "nruns": nruns, "sim_us": sim_us,
            "wall": _walltime.time() - t0, "rig": rig}


def explore(prop, tier, base_seed, jobs, scale=1.0):
    t0 = _walltime.time()
    deadline = t0 + WALL_CAP[tier]
    tasks = []
    rigs = available_rigs(prop)
    for rig in rigs:
        n = int(PLAN[tier].get((prop, rig), 0) * scale)
        if n <= 0:
            continue
        chunk = max(1, n // (jobs * 6))
        for lo in range(0, n, chunk):
            tasks.append((prop, rig, tier, base_seed, lo, min(n, lo + chunk), deadline))
    # interleave rigs so a wall cap cuts all rigs proportionally
    tasks.sort(key=lambda t: (t[4] / max(1, PLAN[tier].get((prop, t[1]), 1)), t[1]))
    per_rig = {}
    vios = []
    total = Stats()
    ctx = multiprocessing.get_context("fork")
    harness_errors = []
    with ProcessPoolExecutor(max_workers=jobs, mp_context=ctx) as ex:
        futs = [ex.submit(_worker, t) for t in tasks]
        for f in as_completed(futs):
            try:
                r = f.result()
            except Exception as e:  # worker died (watchdog) or harness bug
                harness_errors.append(repr(e))
                continue
            pr = per_rig.setdefault(r["rig"], {"runs": 0, "sim_us": 0, "cpu_s": 0.0})
            pr["runs"] += r["nruns"]
            pr["sim_us"] += r["sim_us"]
            pr["cpu_s"] += r["wall"]
            total.merge(r["stats"])
            vios.extend(r["vios"])
    planned = {rig: int(PLAN[tier].get((prop, rig), 0) * scale) for rig in rigs}
    return {"per_rig": per_rig, "planned": planned, "stats": total, "vios": vios,
            "wall": _walltime.time() - t0, "harness_errors": harness_errors}


# ---------------------------------------------------------------------------
# replay / minimise


def execute_scenario(sc, keep_log=False):
    mod = rig_module(sc["rig"])
    return mod.execute(sc, keep_log=keep_log) if keep_log else mod.execute(sc)


def fails_clause(sc, clause):
    res = execute_scenario(sc)
    return any(v["clause"] == clause for v in res["violations"])


def minimise(sc, clause, budget=400):
    mod = rig_module(sc["rig"])

    def fails(c):
        try:
            return fails_clause(c, clause)
        except Exception:
            return False

    if not hasattr(mod, "shrink"):
        return sc
    try:
        out = mod.shrink(sc, fails, budget)
    except Exception:
        return sc
    if fails(out):
        return out
    return sc


def _min_job(args):
    sc, clause = args
    faulthandler.enable()
    faulthandler.dump_traceback_later(RUN_WATCHDOG_S * 2, exit=True)
    try:
        return minimise(sc, clause)
    finally:
        faulthandler.cancel_dump_traceback_later()


def minimise_many(vios, jobs):
    """Minimise several violations in parallel worker processes."""
    if not vios:
        return []
    ctx = multiprocessing.get_context("fork")
    out = []
    with ProcessPoolExecutor(max_workers=max(1, min(jobs, len(vios))), mp_context=ctx) as ex:
        futs = [ex.submit(_min_job, (v["scenario"], v["clause"])) for v in vios]
        for v, f in zip(vios, futs):
            try:
                out.append(f.result())
            except Exception:
                out.append(v["scenario"])
    return out


def fresh_replay(path):
    """Execute a replay file in a fresh interpreter; returns its JSON report."""
    env = dict(os.environ)
    env["PYTHONHASHSEED"] = env.get("PMSIM_REPLAY_HASHSEED", "0")
    p = subprocess.run([PY, os.path.join(VERIF, "check"), "replay", path, "--machine"],
                       capture_output=True, text=True, timeout=600, env=env)
    for line in p.stdout.splitlines():
        if line.startswith("REPLAY-JSON "):
            return json.loads(line[len("REPLAY-JSON "):])
    return {"error": "no report", "stdout": p.stdout[-2000:], "stderr": p.stderr[-2000:]}


def replay_file(path, machine=False):
    doc = json.load(open(path))
    sc = doc["scenario"]
    res = execute_scenario(sc)
    rep = {"violations": [{"clause": v["clause"], "detail": v["detail"]} for v in res["violations"]],
           "digest": res["digest"]}
    if machine:
        print("REPLAY-JSON " + json.dumps(rep))
    return rep, doc
