"""Reference encoders written from DO-260B / ICAO Annex 10 Vol IV / Doc 9871.
Shares no code with pyModeS (the oracle side of C17 and C19)."""
import math

GEN = 0x1FFF409  # x^24 + ... generator, 25 bits


def ref_crc24(bits):
    """Remainder of the bit string (MSB first, int list or '01' string) divided
    by the Mode S generator; the last 24 bits are the parity field, so a valid
    DF17 frame gives 0 and for DF20/21 the result is the address overlay."""
    if isinstance(bits, str):
        v = int(bits, 2)
        n = len(bits)
    else:
        v = 0
        for b in bits:
            v = (v << 1) | (1 if b else 0)
        n = len(bits)
    for i in range(n - 25, -1, -1):
        if (v >> (i + 24)) & 1:
            v ^= GEN << i
    return v & 0xFFFFFF


def crc_of_hex(hexstr):
    n = len(hexstr) * 4
    return ref_crc24(bin(int(hexstr, 16))[2:].zfill(n))


def parity_for(data_hex):
    """24 parity bits for the data part (frame without its last 6 hex digits)."""
    return crc_of_hex(data_hex + "000000")


def frame_with_parity(data_hex, overlay=0):
    return (data_hex + "%06X" % (parity_for(data_hex) ^ overlay)).upper()


def hex_df(hexstr):
    return int(hexstr[:2], 16) >> 3


def frame_address(hexstr):
    """Address a receiver would attribute the frame to (upper-case hex) or
    None: AA field for DF11/17/18, parity overlay for DF0/4/5/16/20/21."""
    df = hex_df(hexstr)
    if df in (11, 17, 18):
        return hexstr[2:8].upper()
    if df in (0, 4, 5, 16, 20, 21):
        return "%06X" % crc_of_hex(hexstr)
    return None


# ---------------------------------------------------------------------------
# CPR

def _nl_table():
    t = []
    a = 1 - math.cos(math.pi / 30)
    for nl in range(2, 60):
        lat = math.degrees(math.acos(math.sqrt(a / (1 - math.cos(2 * math.pi / nl)))))
        t.append((lat, nl))
    return t


NL_TRANSITIONS = _nl_table()  # (transition latitude, NL): NL zones for |lat| below it
NL_LATS = sorted(lat for lat, _ in NL_TRANSITIONS)


def NL(lat):
    """Number of longitude zones: the largest NL (2..59) whose transition
    latitude is still above |lat|; 1 beyond 87 deg."""
    x = abs(lat)
    best = 1
    for tl, nl in NL_TRANSITIONS:
        if x < tl and nl > best:
            best = nl
    return best


def near_nl_transition(lat, eps):
    x = abs(lat)
    if x < eps or abs(x - 87.0) < eps:
        return True
    for tl in NL_LATS:
        if abs(x - tl) < eps:
            return True
    return False


def _zone_split(x, d, nb):
    """x = d * (zi + q / 2**nb) rounded to the nearest bin, with zi and q
    consistent at float zone edges (Python's % and // can disagree there:
    61.01694915254237 // (360/59) is 10 while 61.01694915254237 % (360/59) is
    just under one zone)."""
    zi = math.floor(x / d)
    rem = x - zi * d
    if rem < 0:
        zi -= 1
        rem += d
    elif rem >= d:
        zi += 1
        rem -= d
    q = math.floor((1 << nb) * (rem / d) + 0.5)
    if q >= (1 << nb):
        q = 0
        zi += 1
    return zi, int(q)


def cpr_encode(lat, lon, odd, surface):
    """Returns (YZ, XZ, rlat, rlon): 17-bit fields and the position they
    represent exactly."""
    i = 1 if odd else 0
    nb = 19 if surface else 17
    dlat = 360.0 / (60 - i)
    zi, yz = _zone_split(lat, dlat, nb)
    rlat = dlat * (zi + yz / float(1 << nb))
    nl = NL(rlat)
    dlon = 360.0 / max(nl - i, 1)
    mi, xz = _zone_split(lon, dlon, nb)
    rlon = dlon * (mi + xz / float(1 << nb))
    return yz & 0x1FFFF, xz & 0x1FFFF, rlat, rlon


# ---------------------------------------------------------------------------
# bit helpers

class Bits(object):
    def __init__(self):
        self.v = 0
        self.n = 0

    def put(self, val, width):
        val = int(val) & ((1 << width) - 1)
        self.v = (self.v << width) | val
        self.n += width
        return self

    def hex(self, width_bits=None):
        n = self.n if width_bits is None else width_bits
        assert self.n == n, (self.n, n)
        return ("%0" + str(n // 4) + "X") % self.v


# ---------------------------------------------------------------------------
# ADS-B ME fields (56 bits each)

IDCHARS = "#ABCDEFGHIJKLMNOPQRSTUVWXYZ##### ###############0123456789######"


def me_ident(tc, cat, callsign):
    b = Bits().put(tc, 5).put(cat, 3)
    cs = (callsign + "        ")[:8]
    for ch in cs:
        b.put(IDCHARS.index(ch), 6)
    return b.hex(56)


def alt12(alt_ft):
    """12-bit altitude code, 25 ft increments (Q=1)."""
    n = int(round((alt_ft + 1000) / 25.0))
    n = max(0, min(n, 2047))
    return ((n >> 4) << 5) | (1 << 4) | (n & 0xF)


def me_airborne_pos(tc, ss, nicsb, alt_ft, tbit, odd, lat, lon, gnss_m=None):
    yz, xz, _, _ = cpr_encode(lat, lon, odd, False)
    b = Bits().put(tc, 5).put(ss, 2).put(nicsb, 1)
    if 20 <= tc <= 22:
        b.put(0 if gnss_m is None else int(gnss_m), 12)
    else:
        b.put(alt12(alt_ft), 12)
    b.put(tbit, 1).put(1 if odd else 0, 1).put(yz, 17).put(xz, 17)
    return b.hex(56)


def movement_code(gs_kt):
    if gs_kt is None:
        return 0
    if gs_kt < 0.125:
        return 1
    bands = [(0.125, 1.0, 2, 0.125), (1.0, 2.0, 9, 0.25), (2.0, 15.0, 13, 0.5),
             (15.0, 70.0, 39, 1.0), (70.0, 100.0, 94, 2.0), (100.0, 175.0, 109, 5.0)]
    for lo, hi, code0, step in bands:
        if gs_kt < hi:
            return code0 + int((gs_kt - lo) / step)
    return 124


def me_surface_pos(tc, gs_kt, trk_deg, tbit, odd, lat, lon, mov=None):
    yz, xz, _, _ = cpr_encode(lat, lon, odd, True)
    b = Bits().put(tc, 5).put(movement_code(gs_kt) if mov is None else mov, 7)
    if trk_deg is None:
        b.put(0, 1).put(0, 7)
    else:
        b.put(1, 1).put(int((trk_deg % 360.0) * 128 / 360.0), 7)
    b.put(tbit, 1).put(1 if odd else 0, 1).put(yz, 17).put(xz, 17)
    return b.hex(56)


def me_velocity_gs(st, nac, vew_kt, vns_kt, vr_fpm, vr_baro, dalt_ft, ic=0, ifr=0):
    """Subtype 1 (st=1) or 2 (supersonic, st=2): ground velocity components."""
    mul = 4 if st == 2 else 1
    b = Bits().put(19, 5).put(st, 3).put(ic, 1).put(ifr, 1).put(nac, 3)
    for v in (vew_kt, vns_kt):
        if v is None:
            b.put(0, 1).put(0, 10)
        else:
            mag = min(1022, int(round(abs(v) / mul)))
            b.put(1 if v < 0 else 0, 1).put(mag + 1, 10)
    b.put(1 if vr_baro else 0, 1)
    _put_vr_dalt(b, vr_fpm, dalt_ft)
    return b.hex(56)


def me_velocity_as(st, nac, hdg_deg, as_kt, tas, vr_fpm, vr_baro, dalt_ft, ic=0, ifr=0):
    """Subtype 3/4: heading and airspeed."""
    mul = 4 if st == 4 else 1
    b = Bits().put(19, 5).put(st, 3).put(ic, 1).put(ifr, 1).put(nac, 3)
    if hdg_deg is None:
        b.put(0, 1).put(0, 10)
    else:
        b.put(1, 1).put(int((hdg_deg % 360.0) * 1024 / 360.0), 10)
    b.put(1 if tas else 0, 1)
    if as_kt is None:
        b.put(0, 10)
    else:
        b.put(min(1022, int(round(as_kt / mul))) + 1, 10)
    b.put(1 if vr_baro else 0, 1)
    _put_vr_dalt(b, vr_fpm, dalt_ft)
    return b.hex(56)


def _put_vr_dalt(b, vr_fpm, dalt_ft):
    if vr_fpm is None:
        b.put(0, 1).put(0, 9)
    else:
        b.put(1 if vr_fpm < 0 else 0, 1).put(min(510, int(round(abs(vr_fpm) / 64.0))) + 1, 9)
    b.put(0, 2)
    if dalt_ft is None:
        b.put(0, 1).put(0, 7)
    else:
        b.put(1 if dalt_ft < 0 else 0, 1).put(min(126, int(round(abs(dalt_ft) / 25.0))) + 1, 7)


def me_status28(st, es, squawk13, rest):
    return Bits().put(28, 5).put(st, 3).put(es, 3).put(squawk13, 13).put(rest, 32).hex(56)


def me_target29(subtype, body51):
    """Target state and status; the body is 49 free bits after TC and the
    2-bit subtype."""
    return Bits().put(29, 5).put(subtype, 2).put(body51, 49).hex(56)


def me_opstatus31(st, cc16, om16, ver, nic_a, nacp, gva_baq, sil, bit53, hrd, sils, res=0):
    """Aircraft operational status: TC(5) ST(3) CC(16) OM(16) VER(3) NICa(1)
    NACp(4) GVA/BAQ(2) SIL(2) NICbaro|TRK(1) HRD(1) SILsupp(1) res(1)."""
    return (Bits().put(31, 5).put(st, 3).put(cc16, 16).put(om16, 16).put(ver, 3).put(nic_a, 1)
            .put(nacp, 4).put(gva_baq, 2).put(sil, 2).put(bit53, 1).put(hrd, 1).put(sils, 1).put(res, 1).hex(56))


def df17(icao_hex, me_hex, ca=5):
    data = Bits().put(17, 5).put(ca, 3).hex(8) + icao_hex.upper() + me_hex
    return frame_with_parity(data)


def df18(icao_hex, me_hex, cf=0):
    data = Bits().put(18, 5).put(cf, 3).hex(8) + icao_hex.upper() + me_hex
    return frame_with_parity(data)


# ---------------------------------------------------------------------------
# Comm-B

def ac13(alt_ft):
    """13-bit AC field, M=0, Q=1, 25 ft."""
    n = int(round((alt_ft + 1000) / 25.0))
    n = max(0, min(n, 2047))
    return ((n >> 5) << 7) | (0 << 6) | (((n >> 4) & 1) << 5) | (1 << 4) | (n & 0xF)


def squawk13(code4):
    """13-bit identity field from four octal digits ABCD."""
    a, b, c, d = [int(x) for x in code4]
    bit = lambda v, k: (v >> k) & 1  # noqa
    # order C1 A1 C2 A2 C4 A4 X B1 D1 B2 D2 B4 D4
    seq = [bit(c, 0), bit(a, 0), bit(c, 1), bit(a, 1), bit(c, 2), bit(a, 2), 0,
           bit(b, 0), bit(d, 0), bit(b, 1), bit(d, 1), bit(b, 2), bit(d, 2)]
    v = 0
    for s in seq:
        v = (v << 1) | s
    return v


def commb(df, icao_hex, mb_hex, fs=0, dr=0, um=0, field13=0):
    data = Bits().put(df, 5).put(fs, 3).put(dr, 5).put(um, 6).put(field13, 13).hex(32) + mb_hex
    return frame_with_parity(data, int(icao_hex, 16))


def _sm(b, status, val, width, signed, lsb):
    """status + (sign) + magnitude field."""
    if val is None or not status:
        b.put(0, 1 + width + (1 if signed else 0))
        return
    b.put(1, 1)
    if signed:
        n = int(round(val / lsb))
        lim = 1 << width
        n = max(-lim, min(lim - 1, n))
        b.put(1 if n < 0 else 0, 1).put(n & (lim - 1), width)
    else:
        n = max(0, min((1 << width) - 1, int(round(val / lsb))))
        b.put(n, width)


def mb_bds50(roll, trk, gs, rate, tas):
    b = Bits()
    _sm(b, roll is not None, roll, 9, True, 45.0 / 256)
    _sm(b, trk is not None, trk, 10, True, 90.0 / 512)
    _sm(b, gs is not None, gs, 10, False, 2.0)
    _sm(b, rate is not None, rate, 9, True, 8.0 / 256)
    _sm(b, tas is not None, tas, 10, False, 2.0)
    return b.hex(56)


def mb_bds60(hdg, ias, mach, vr_baro, vr_ins):
    b = Bits()
    _sm(b, hdg is not None, hdg, 10, True, 90.0 / 512)
    _sm(b, ias is not None, ias, 10, False, 1.0)
    _sm(b, mach is not None, mach, 10, False, 2.048 / 512)
    _sm(b, vr_baro is not None, vr_baro, 9, True, 32.0)
    _sm(b, vr_ins is not None, vr_ins, 9, True, 32.0)
    return b.hex(56)


def mb_bds40(mcp_alt, fms_alt, baro_mb):
    b = Bits()
    _sm(b, mcp_alt is not None, mcp_alt, 12, False, 16.0)
    _sm(b, fms_alt is not None, fms_alt, 12, False, 16.0)
    _sm(b, baro_mb is not None, None if baro_mb is None else baro_mb - 800.0, 12, False, 0.1)
    b.put(0, 8).put(0, 1).put(0, 3).put(0, 2).put(0, 1).put(0, 2)
    return b.hex(56)


def mb_bds20(callsign):
    b = Bits().put(0x20, 8)
    for ch in (callsign + "        ")[:8]:
        b.put(IDCHARS.index(ch), 6)
    return b.hex(56)


def mb_bds10(rest48=0):
    return Bits().put(0x10, 8).put(rest48, 48).hex(56)


def mb_bds17(caps56):
    return Bits().put(caps56, 56).hex(56)
