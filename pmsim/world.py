"""World model for C17: aircraft flying continuous piecewise trajectories and
the frames they broadcast.  Trajectory parameters are plain data (JSON-able);
``Traj(params).pos(t)`` recomputes the same polyline deterministically, so the
truth used by the oracle never depends on a PRNG at execution time.
"""
import math

from . import refenc as R

LAT_CAP = 86.4
DT = 0.5  # integration step, seconds


class Traj(object):
    """params: {"lat":, "lon":, "hdg":, "legs":[[dur_s, gs_kt, turn_deg_s, ground(0/1), alt_ft, vr_fpm], ...]}
    Position is a function of relative time t >= 0 (clamped to the end)."""

    def __init__(self, p):
        self.p = p
        lat, lon, hdg = p["lat"], p["lon"], p["hdg"]
        self.pts = [(lat, lon)]
        self.meta = []  # per step: (gs, hdg, ground, alt, vr)
        alt = None
        for (dur, gs, turn, ground, alt0, vr) in p["legs"]:
            n = max(1, int(round(dur / DT)))
            if alt is None or alt0 is not None:
                alt = alt0 if alt0 is not None else 0.0
            for _ in range(n):
                v = gs / 3600.0  # NM per second
                dlat = v * math.cos(math.radians(hdg)) * DT / 60.0
                nlat = lat + dlat
                if abs(nlat) > LAT_CAP:
                    hdg = (180.0 - hdg) % 360.0
                    dlat = -dlat
                    nlat = lat + dlat
                coslat = math.cos(math.radians((lat + nlat) / 2.0))
                dlon = v * math.sin(math.radians(hdg)) * DT / (60.0 * coslat)
                lat, lon = nlat, lon + dlon
                self.meta.append((gs, hdg, ground, alt, vr))
                self.pts.append((lat, lon))
                hdg = (hdg + turn * DT) % 360.0
                alt = max(-900.0, min(50000.0, alt + vr * DT / 60.0)) if not ground else alt
        self.T = (len(self.pts) - 1) * DT

    def pos(self, t):
        if t <= 0:
            la, lo = self.pts[0]
        elif t >= self.T:
            la, lo = self.pts[-1]
        else:
            k = int(t / DT)
            f = (t - k * DT) / DT
            a = self.pts[k]
            b = self.pts[min(k + 1, len(self.pts) - 1)]
            la = a[0] + (b[0] - a[0]) * f
            lo = a[1] + (b[1] - a[1]) * f
        return la, ((lo + 180.0) % 360.0) - 180.0

    def state(self, t):
        k = min(max(int(t / DT), 0), len(self.meta) - 1)
        return self.meta[k]


def lon_diff(a, b):
    return abs(((a - b + 180.0) % 360.0) - 180.0)


def encodable_pos(lat, lon, odd, surface):
    """Position actually put into the CPR encoder.  When the latitude the frame
    would carry sits within 1e-7 deg of an NL transition (where C06 lets cprNL
    return either neighbour) the latitude is nudged by one CPR bin."""
    yz, xz, rlat, rlon = R.cpr_encode(lat, lon, odd, surface)
    if R.near_nl_transition(rlat, 1e-7):
        binlat = (360.0 / (60 - (1 if odd else 0))) / float(1 << (19 if surface else 17))
        lat = lat + 2 * binlat if lat < 80 else lat - 2 * binlat
    return lat, lon


# ---------------------------------------------------------------------------
# message builders for one aircraft at relative time t

def msg_position(ac, tr, t, odd, rng_bits):
    la, lo = tr.pos(t)
    gs, hdg, ground, alt, vr = tr.state(t)
    if ground:
        la, lo = encodable_pos(la, lo, odd, True)
        tc = 5 + (rng_bits % 4)
        trk = None if (rng_bits >> 2) % 7 == 0 else hdg
        me = R.me_surface_pos(tc, gs, trk, (rng_bits >> 5) & 1, odd, la, lo)
    else:
        la, lo = encodable_pos(la, lo, odd, False)
        if ac.get("gnss_pos") and (rng_bits >> 3) % 5 == 0:
            tc = 20 + (rng_bits % 3)
        else:
            tc = 9 + (rng_bits % 10)
        me = R.me_airborne_pos(tc, (rng_bits >> 6) & 3, (rng_bits >> 8) & 1, alt, (rng_bits >> 5) & 1, odd, la, lo,
                               gnss_m=int(max(0, alt) * 0.3048) & 0xFFF)
    return (R.df18 if ac.get("df18") else R.df17)(ac["icao"], me)


def msg_velocity(ac, tr, t, rng_bits):
    gs, hdg, ground, alt, vr = tr.state(t)
    st = [1, 1, 1, 2, 3, 4][rng_bits % 6]
    nac = (rng_bits >> 3) & 7
    if st in (1, 2):
        vew = gs * math.sin(math.radians(hdg))
        vns = gs * math.cos(math.radians(hdg))
        if (rng_bits >> 6) % 17 == 0:
            vew = None
        me = R.me_velocity_gs(st, nac, vew, vns, vr, (rng_bits >> 7) & 1, ((rng_bits >> 8) % 64) * 25 - 800)
    else:
        me = R.me_velocity_as(st, nac, None if (rng_bits >> 6) % 9 == 0 else hdg, gs, (rng_bits >> 7) & 1, vr,
                              (rng_bits >> 8) & 1, None)
    return (R.df18 if ac.get("df18") else R.df17)(ac["icao"], me)


def msg_ident(ac, rng_bits):
    return (R.df18 if ac.get("df18") else R.df17)(ac["icao"], R.me_ident(1 + rng_bits % 4, (rng_bits >> 2) & 7, ac["call"]))


def msg_status(ac, kind, rng_bits, ver):
    if kind == 28:
        me = R.me_status28(1 + (rng_bits % 2), (rng_bits >> 1) & 7, R.squawk13("%04o" % (rng_bits % 4096)), (rng_bits >> 13) & 0xFFFFFFFF)
    elif kind == 29:
        me = R.me_target29((rng_bits >> 1) & 3, (rng_bits >> 3) & ((1 << 49) - 1))
    else:
        me = R.me_opstatus31(rng_bits & 1, (rng_bits >> 1) & 0xFFFF, (rng_bits >> 17) & 0xFFFF, ver,
                             (rng_bits >> 33) & 1, (rng_bits >> 34) & 15, (rng_bits >> 38) & 3, (rng_bits >> 40) & 3,
                             (rng_bits >> 42) & 1, (rng_bits >> 43) & 1, (rng_bits >> 44) & 1)
    return (R.df18 if ac.get("df18") else R.df17)(ac["icao"], me)


def msg_commb(ac, tr, t, rng_bits):
    gs, hdg, ground, alt, vr = tr.state(t)
    df = 20 if rng_bits & 1 else 21
    f13 = R.ac13(alt) if df == 20 else R.squawk13("%04o" % ((rng_bits >> 1) % 4096))
    kind = (rng_bits >> 13) % 8
    h = hdg if hdg <= 180 else hdg - 360
    tas = min(gs + ((rng_bits >> 20) % 40) - 20, 590)
    # each field of a register is individually "not available" now and then
    # (status bit 0, value bits 0)
    def opt(v, k):
        return None if ((rng_bits >> (40 + k)) & 7) == 0 else v
    if kind in (0, 1):
        roll = ((rng_bits >> 16) % 60) - 30.0
        mb = R.mb_bds50(opt(roll, 0), opt(h, 3), opt(gs, 6), opt(((rng_bits >> 24) % 9 - 4) * 0.25, 9), opt(max(tas, 0), 12))
    elif kind in (2, 3):
        # plausible IAS/Mach pair: derive both from TAS and altitude roughly
        a = max(alt, 0)
        mach = min(0.95, max(0.05, tas / (661.5 * math.sqrt(max(0.3, 1 - 6.875e-6 * a)))))
        sigma = (1 - 6.875e-6 * min(a, 36000)) ** 4.256
        ias = min(450, tas * math.sqrt(sigma))
        mb = R.mb_bds60(opt(h, 0), opt(ias, 3), opt(mach, 6), opt(vr, 9), opt(vr + ((rng_bits >> 16) % 5 - 2) * 32, 12))
    elif kind == 4:
        mb = R.mb_bds20(ac["call"])
    elif kind == 5:
        mb = R.mb_bds40(opt((int(max(alt, 0)) // 16) * 16, 0), None if (rng_bits >> 16) & 1 else (int(max(alt, 0)) // 16) * 16,
                        opt(1013.2 + ((rng_bits >> 20) % 300 - 150) * 0.1, 3))
    elif kind == 6:
        mb = R.mb_bds10((rng_bits >> 16) & ((1 << 48) - 1))
    else:
        mb = "%014X" % ((rng_bits >> 8) & ((1 << 56) - 1))
    return R.commb(df, ac["icao"], mb, fs=(rng_bits >> 3) & 7, dr=0, um=(rng_bits >> 6) & 63, field13=f13)


def case_render(hexstr, mode):
    """Deterministic lower/mixed-case rendering of an upper-case frame."""
    if mode == "upper":
        return hexstr
    if mode == "lower":
        return hexstr.lower()
    import zlib

    c = zlib.crc32(hexstr.encode())
    return "".join(ch.lower() if (c >> (i % 31)) & 1 else ch for i, ch in enumerate(hexstr))
