"""Self-tests of the machinery itself.

  check selftest determinism [--n N] [--jobs J]
      every rig: N run seeds executed in fresh interpreters under two different
      PYTHONHASHSEED values and two worker counts; scenario hashes and event-log
      digests must agree pairwise.
  check selftest mutants [--only name,name] [--scale X]
      textual mutants of the working tree (scratch copy outside /repo and
      /verif, removed afterwards): the pinned tests must still pass on the
      mutant and the quick check of the owning property must report a
      VIOLATION.  Results go to /verif/selftest_results/mutants.json.
"""
import json
import os
import shutil
import subprocess
import sys
import tempfile
import time as _walltime
from concurrent.futures import ThreadPoolExecutor

VERIF = os.path.dirname(os.path.dirname(os.path.abspath(__file__)))
PY = sys.executable
ALL_RIGS = [("C16", "r1a"), ("C16", "r1b"), ("C16", "r3"), ("C17", "r2"), ("C17", "r3"), ("C19", "r4a"), ("C19", "r4b")]


def arg(argv, name, default=None, cast=str):
    if name in argv:
        return cast(argv[argv.index(name) + 1])
    return default


# ---------------------------------------------------------------------------
def _digests(prop, rig, lo, hi):
    from . import driver
    from .util import h64, canon
    mod = driver.rig_module(rig)
    out = []
    for idx in range(lo, hi):
        rs = driver.run_seed_of(0, prop, rig, idx)
        sc = mod.generate_for(rs, "quick", prop) if hasattr(mod, "generate_for") else mod.generate(rs, "quick")
        res = mod.execute(sc)
        out.append([idx, "%016x" % h64(canon(sc)), res["digest"], len(res["violations"])])
    print("DIGESTS " + json.dumps(out))


def _spawn_digests(prop, rig, lo, hi, hashseed):
    env = dict(os.environ)
    env["PYTHONHASHSEED"] = str(hashseed)
    env["PMSIM_NO_REEXEC"] = "1"
    p = subprocess.run([PY, os.path.join(VERIF, "check"), "selftest", "_digests", prop, rig, str(lo), str(hi)],
                       capture_output=True, text=True, env=env, timeout=3600)
    for line in p.stdout.splitlines():
        if line.startswith("DIGESTS "):
            return json.loads(line[8:])
    raise RuntimeError("digest worker failed: %s %s" % (p.stdout[-500:], p.stderr[-1500:]))


def determinism(argv):
    n = arg(argv, "--n", 200, int)
    jobs = arg(argv, "--jobs", 16, int)
    t0 = _walltime.time()
    bad = 0
    report = {}
    for prop, rig in ALL_RIGS:
        if not os.path.exists(os.path.join(VERIF, "pmsim", "rigs", rig + ".py")):
            continue
        nn = n if rig not in ("r3",) else max(20, n // 4)
        # configuration A: many workers, hash seed 0.  B: few workers, other hash seed.
        def cfg(workers, hashseed):
            chunk = max(1, -(-nn // workers))
            ranges = [(lo, min(nn, lo + chunk)) for lo in range(0, nn, chunk)]
            with ThreadPoolExecutor(max_workers=workers) as ex:
                parts = list(ex.map(lambda r: _spawn_digests(prop, rig, r[0], r[1], hashseed), ranges))
            return [x for p in parts for x in p]
        a = cfg(jobs, 0)
        b = cfg(max(1, jobs // 4), 987654321)
        c = cfg(1 if nn <= 50 else 2, 31337)
        diffs = [(x, y, z) for x, y, z in zip(a, b, c) if not (x == y == z)]
        report["%s/%s" % (prop, rig)] = {"seeds": nn, "mismatches": len(diffs)}
        print("determinism %s/%s: %d seeds x 3 fresh-interpreter configurations (PYTHONHASHSEED 0/987654321/31337, workers %d/%d/%d): %d mismatches" % (
            prop, rig, nn, jobs, max(1, jobs // 4), 1 if nn <= 50 else 2, len(diffs)))
        for d in diffs[:5]:
            print("  MISMATCH", d)
        bad += len(diffs)
    os.makedirs(os.path.join(VERIF, "selftest_results"), exist_ok=True)
    json.dump({"report": report, "wall_s": round(_walltime.time() - t0, 1)},
              open(os.path.join(VERIF, "selftest_results", "determinism.json"), "w"), indent=1, sort_keys=True)
    print("determinism: %s in %.0fs" % ("OK" if not bad else "%d MISMATCHES" % bad, _walltime.time() - t0))
    return 0 if not bad else 2


# ---------------------------------------------------------------------------
# Mutant catalogue: (name, property, file under src/pyModeS, old, new, count)
TCP = "extra/tcpclient.py"
SRC = "streamer/source.py"
DEC = "streamer/decode.py"
RTL = "extra/rtlreader.py"
B05 = "decoder/bds/bds05.py"
B06 = "decoder/bds/bds06.py"
PYC = "py_common.py"
UNC = "decoder/uncertainty.py"

MUTANTS = [
    # --- C16
    ("beast_escape_no_skip", "C16", TCP, "                    msg.append(0x1A)\n                    i += 1\n", "                    msg.append(0x1A)\n", 2),
    ("beast_buffer_reset", "C16", TCP, "        self.buffer = self.buffer[start:]\n", "        self.buffer = []\n", 2),
    ("beast_df18_not_long", "C16", TCP, "if df in [16, 17, 18, 19, 20, 21, 24] and len(msg) != 28:", "if df in [16, 17, 19, 20, 21, 24] and len(msg) != 28 or df == 18:", -1),
    ("beast_short_slice", "C16", TCP, "mm[8:15]", "mm[8:14]", -1),
    ("raw_state_not_kept", "C16", TCP, "        messages = []\n\n        # current_msg and msg_stop are kept", "        messages = []\n        self.current_msg = \"\"\n\n        # current_msg and msg_stop are kept", 1),
    ("raw_to_beast_dispatch", "C16", TCP, "                elif self.datatype == \"raw\":\n                    messages = self.read_raw_buffer()", "                elif self.datatype == \"raw\":\n                    messages = self.read_beast_buffer()", 1),
    ("skysense_consume_plus1", "C16", TCP, "self.buffer = self.buffer[SS_MSGLENGTH:]", "self.buffer = self.buffer[SS_MSGLENGTH + 1:]", 1),
    ("run_drops_big_reads", "C16", TCP, "                if not messages:\n                    continue", "                if not messages or len(messages) > 3:\n                    continue", 1),
    ("run_again_clears_buffer", "C16", TCP, "            except zmq.error.Again:\n                continue", "            except zmq.error.Again:\n                self.buffer = []\n                continue", 1),
    ("run_keeps_routing_id", "C16", TCP, "self.socket.recv_multipart()[-1]", "b\"\".join(self.socket.recv_multipart())", 1),
    ("netsource_no_reset", "C16", SRC, "            )\n            self.reset_local_buffer()\n", "            )\n", -1),
    ("netsource_len_le_28", "C16", SRC, "if len(msg) < 28:  # only process long messages", "if len(msg) <= 28:  # only process long messages", -1),
    ("netsource_commb_ts_dropped", "C16", SRC, "                self.local_buffer_commb_ts.append(t)\n",
     "                if len(self.local_buffer_commb_ts) < 3:\n                    self.local_buffer_commb_ts.append(t)\n", -1),
    ("netsource_flush_drops_commb", "C16", SRC, "                    \"commb_msg\": self.local_buffer_commb_msg,\n", "                    \"commb_msg\": self.local_buffer_commb_msg[:8],\n", -1),
    # --- C17
    ("cache_timeout_30", "C17", DEC, "self.cache_timeout = 60  # seconds", "self.cache_timeout = 30  # seconds", 1),
    ("cache_timeout_120", "C17", DEC, "self.cache_timeout = 60  # seconds", "self.cache_timeout = 120  # seconds", 1),
    ("evict_against_first_stamp", "C17", DEC, "        self.t = tnow\n", "        self.t = adsb_ts[0] if len(adsb_ts) > 0 else tnow\n", 1),
    ("ref_window_1800", "C17", DEC, "(t - self.acs[icao][\"tpos\"] < 180)", "(t - self.acs[icao][\"tpos\"] < 1800)", 1),
    ("pair_window_100", "C17", DEC, "(abs(self.acs[icao][\"t0\"] - self.acs[icao][\"t1\"]) < 10)", "(abs(self.acs[icao][\"t0\"] - self.acs[icao][\"t1\"]) < 100)", 1),
    ("commb_guard_autocreate", "C17", DEC, "            if icao not in self.acs:\n                continue\n", "            if icao not in self.acs:\n                self.acs[icao] = {\"live\": int(t), \"lat\": None, \"lon\": None}\n", 1),
    ("latlon0_swapped", "C17", DEC, "                            self.lat0,\n                            self.lon0,\n", "                            self.lon0,\n                            self.lat0,\n", 1),
    ("except_narrowed", "C17", DEC, "                    except:\n                        # mix of surface", "                    except ValueError:\n                        # mix of surface", 1),
    ("live_minus_2", "C17", DEC, "            self.acs[icao][\"live\"] = int(t)\n\n            if 1 <= tc <= 4:", "            self.acs[icao][\"live\"] = int(t) - 2\n\n            if 1 <= tc <= 4:", 1),
    ("commb_live_backwards", "C17", DEC, "max(self.acs[icao][\"live\"], int(t))", "int(t)", 1),
    ("run_clears_before_processing", "C17", DEC, "                for data in local_buffer:\n", "                pending, local_buffer = local_buffer, []\n                for data in pending[:-1] if len(pending) > 2 else pending:\n", 1),
    ("commb_stale_local", "C17", DEC, "                if tas50:\n                    self.acs[icao][\"tas\"] = tas50\n",
     "                tas50 = tas50 or getattr(self, \"_last_tas\", None)\n                self._last_tas = tas50\n                if tas50:\n                    self.acs[icao][\"tas\"] = tas50\n", 1),
    ("icao_case_regression", "C17", PYC, "addr = msg[2:8].upper()", "addr = msg[2:8]", 1),
    ("nucp_table_hole", "C17", UNC, "    17: 1,\n    18: 0,\n    20: 9,", "    17: 1,\n    20: 9,", 1),
    ("cprnl_off_by_one_band", "C17", PYC, "    NL = floor(nl)\n    return NL", "    NL = floor(nl)\n    if NL == 37:\n        NL = 36\n    return NL", 1),
    ("airborne_ref_even_dlat", "C17", B05, "d_lat = 360 / 59 if i else 360 / 60", "d_lat = 360 / 59", 1),
    ("surface_hemisphere_regression", "C17", B06, "        if abs(lat_ref - lat_even_n) <= abs(lat_ref - lat_even_s)\n", "        if lat_ref > 0\n", 1, "        if abs(lat_ref - lat_odd_n) <= abs(lat_ref - lat_odd_s)\n", "        if lat_ref > 0\n"),
    ("surface_lon_unwrapped", "C17", B06, "dls = [abs((lon_ref - lon + 180) % 360 - 180) for lon in lons]", "dls = [abs(lon_ref - lon) for lon in lons]", 1),
    # --- C19
    ("th_amp_diff_03", "C19", RTL, "th_amp_diff = 0.8", "th_amp_diff = 0.3", 1),
    ("slicer_ge_to_gt", "C19", RTL, "                    elif p2[0] >= p2[1]:\n                        c = 1\n                    elif p2[0] < p2[1]:\n                        c = 0",
     "                    elif p2[0] > p2[1] * 1.5:\n                        c = 1\n                    elif p2[0] < p2[1]:\n                        c = 0", 1),
    ("crc_check_removed", "C19", RTL, "            if pms.crc(msg) == 0:\n                return True", "            return True", 1),
    ("threshold_05", "C19", RTL, "threshold = max(frame_pulses) * 0.2", "threshold = max(frame_pulses) * 1.2", 1),
    ("min_sig_amp_10x", "C19", RTL, "min_sig_amp = 3.162 * self.noise_floor", "min_sig_amp = 10 * self.noise_floor", 1),
    ("jump_past_next_preamble", "C19", RTL, "                i = frame_start + j\n", "                i = frame_start + j + 260\n", 1),
    ("frame_start_pbits", "C19", RTL, "frame_start = i + pbits * 2", "frame_start = i + pbits * 2 + 2", 1),
    ("df_list_loses_11", "C19", RTL, "elif df in [4, 5, 11] and msglen == 14:\n            return True\n        return False", "elif df in [4, 5] and msglen == 14:\n            return True\n        return False", 1),
    ("length_fix_regression", "C19", RTL, "                    if len(msgbin) > nbits:\n", "                    if False and len(msgbin) > nbits:\n", 1),
    ("noise_floor_running_max", "C19", RTL, "self.noise_floor = min(self._calc_noise(), self.noise_floor)", "self.noise_floor = self._calc_noise() if self.noise_floor > 1e5 else max(self._calc_noise(), self.noise_floor)", 1),
    ("rtlsource_no_reset", "C19", SRC, "            )\n            self.reset_local_buffer()\n", "            )\n", -2),
]


def _fill_special(src_root):
    out = []
    for mu in MUTANTS:
        out.append(mu)
    return out


def _apply(src_root, mu):
    if len(mu) > 6:
        ok = _apply(src_root, mu[:6])
        return ok and _apply(src_root, (mu[0], mu[1], mu[2], mu[6], mu[7], 1))
    name, prop, f, old, new, cnt = mu
    p = os.path.join(src_root, "pyModeS", f)
    s = open(p).read()
    if s.count(old) < 1:
        return False
    if cnt == -1:
        i = s.index(old)
        s = s[:i] + new + s[i + len(old):]
    elif cnt == -2:
        i = s.rindex(old)
        s = s[:i] + new + s[i + len(old):]
    else:
        if cnt and s.count(old) != cnt:
            return False
        s = s.replace(old, new)
    open(p, "w").write(s)
    return True


def mutants(argv):
    from .bootstrap import REPO
    only = arg(argv, "--only", None)
    scale = arg(argv, "--scale", "1.0")
    t0 = _walltime.time()
    results = []
    cat = _fill_special(os.path.join(REPO, "src"))
    if only:
        want = set(only.split(","))
        cat = [m for m in cat if m[0] in want]
    for mu in cat:
        name, prop = mu[0], mu[1]
        tmp = tempfile.mkdtemp(prefix="pmsim_mut_")
        try:
            shutil.copytree(os.path.join(REPO, "src"), os.path.join(tmp, "src"), ignore=shutil.ignore_patterns("__pycache__", "*.so", "*.c"))
            shutil.copytree(os.path.join(REPO, "tests"), os.path.join(tmp, "tests"), ignore=shutil.ignore_patterns("__pycache__"))
            for extra in ("pyproject.toml",):
                if os.path.exists(os.path.join(REPO, extra)):
                    shutil.copy(os.path.join(REPO, extra), tmp)
            if not _apply(os.path.join(tmp, "src"), mu):
                results.append({"name": name, "property": prop, "status": "not-applicable (source text not found)"})
                print("mutant %-32s %s: source text not found - skipped" % (name, prop))
                continue
            env = dict(os.environ)
            env["PYTHONPATH"] = os.path.join(tmp, "src")
            pt = subprocess.run([PY, "-m", "pytest", "-q", "-p", "no:cacheprovider", "-x", "tests"], cwd=tmp, env=env,
                                capture_output=True, text=True, timeout=900)
            tests_ok = pt.returncode == 0 and "36 passed" in pt.stdout
            env = dict(os.environ)
            env["PMSIM_REPO"] = tmp
            env["PMSIM_EVIDENCE_DIR"] = os.path.join(tmp, "evidence")
            env["PMSIM_REPLAY_DIR"] = os.path.join(tmp, "replays")
            ck = subprocess.run([PY, os.path.join(VERIF, "check"), prop, "--tier", "quick", "--scale", scale], env=env,
                                capture_output=True, text=True, timeout=3600)
            vio = [l for l in ck.stdout.splitlines() if l.startswith("VIOLATION property=%s" % prop)]
            clauses = sorted(set(l.strip().split(":")[0] for l in ck.stdout.splitlines() if l.startswith("  C")))
            st = "killed" if (ck.returncode == 1 and vio) else ("survived" if ck.returncode == 0 else "harness-fault rc=%d" % ck.returncode)
            results.append({"name": name, "property": prop, "tests_pass": tests_ok, "status": st, "clauses": clauses,
                            "violations": len(vio)})
            print("mutant %-32s %s: tests %s, check -> %s %s" % (name, prop, "pass" if tests_ok else "FAIL(%s)" % pt.stdout.strip().splitlines()[-1:],
                                                                  st, clauses))
            if st.startswith("harness"):
                print(ck.stdout[-1500:], ck.stderr[-1500:])
            sys.stdout.flush()
        finally:
            shutil.rmtree(tmp, ignore_errors=True)
    os.makedirs(os.path.join(VERIF, "selftest_results"), exist_ok=True)
    path = os.path.join(VERIF, "selftest_results", "mutants.json")
    prev = []
    if only and os.path.exists(path):
        prev = [r for r in json.load(open(path))["results"] if r["name"] not in set(x["name"] for x in results)]
    json.dump({"results": prev + results, "wall_s": round(_walltime.time() - t0, 1)}, open(path, "w"), indent=1, sort_keys=True)
    k = sum(1 for r in results if r["status"] == "killed")
    print("mutants: %d killed / %d applicable (%d survived) in %.0fs" % (
        k, sum(1 for r in results if r["status"] in ("killed", "survived")), sum(1 for r in results if r["status"] == "survived"), _walltime.time() - t0))
    return 0


def main(argv):
    if not argv:
        print(__doc__)
        return 2
    if argv[0] == "_digests":
        _digests(argv[1], argv[2], int(argv[3]), int(argv[4]))
        return 0
    if argv[0] == "determinism":
        return determinism(argv[1:])
    if argv[0] == "mutants":
        return mutants(argv[1:])
    print(__doc__)
    return 2
