"""run_check: known findings, exploration, violation processing, evidence."""
import json
import os
import sys
import time as _walltime

from . import driver, findings
from .bootstrap import common_module, code_rev, REPO
from .util import canon, h64

VERIF = driver.VERIF

REAL = {
    "C16": ["TcpClient.read_beast_buffer", "TcpClient.read_beast_buffer_rssi_piaware", "TcpClient.read_raw_buffer",
            "TcpClient.read_skysense_buffer", "TcpClient.connect/run", "NetSource.handle_messages",
            "Decode.run (R3)", "pyModeS.df"],
    "C17": ["Decode.process_raw", "Decode.get_aircraft", "Decode.run (R3)", "NetSource.run/handle_messages (R3)",
            "every pyModeS decoder they call (adsb.*, commb.*, bds.infer, common.*)"],
    "C19": ["RtlReader.__init__/_process_buffer/_calc_noise/_check_preamble/_check_msg/_read_callback/run",
            "RtlSdrSource.handle_messages", "pyModeS.bin2hex/df/crc"],
}
STUB = {
    "C16": ["zmq STREAM socket (FakeZmq, libzmq framing semantics)", "clock (FakeTime/StepClock)",
            "multiprocessing Pipe/Queue/Value (SimPipe/SimQueue/SimValue, pickling kept)", "network peer (feeder task)",
            "screen consumer"],
    "C17": ["clock", "pipes/queue", "zmq socket", "network peer and the aircraft/world model", "screen consumer"],
    "C19": ["rtlsdr device (fake module in sys.modules)", "RF environment (PPM modulator + noise model M)", "clock", "pipe"],
}
ASSUME = {
    "C16": ["TCP delivers every byte once and in order: byte loss/duplication/reordering are not injected",
            "frames are valid Mode S frames (DF consistent with length); Beast types 1 and 4 interleaved; stream ends with a sentinel frame start",
            "hex case is not part of frame identity (comparison is case-insensitive)",
            "FakeZmq encodes libzmq 4.3.5 ZMQ_STREAM behaviour observed on loopback (id frame + data frame per TCP piece)"],
    "C17": ["non-decreasing timestamps, tnow >= every stamp of the call",
            "|lat| <= 86.4 deg (above 86.53 deg one CPR longitude bin exceeds 0.001 deg)",
            "ground legs <= 175 kt, airborne <= 600 kt; receiver within 45 NM of ground legs",
            "longitude compared modulo 360; staleness grey zone (59,61] s adopted from the implementation",
            "true position nudged off NL transition latitudes by one CPR bin (C06 allows either NL there)"],
    "C19": ["noise model M: stationary per run, bounded, every noise sample >= 10 dB below the weakest pulse, mean >= 0.45 peak",
            "every frame lies wholly inside one processing window; >= 2 noise-only 100 us windows first; gaps >= 240 samples",
            "DF18 not generated (never admitted by _check_msg; statement lists DF17/20/21/4/5/11)"],
}


REPLAY_DIR = os.environ.get("PMSIM_REPLAY_DIR", os.path.join(VERIF, "replays"))
EVIDENCE_DIR = os.environ.get("PMSIM_EVIDENCE_DIR", os.path.join(VERIF, "evidence"))


def _write_replay(prop, v, sc_min, digest):
    os.makedirs(REPLAY_DIR, exist_ok=True)
    name = "%s-%s-%d.json" % (prop, v["rig"], v["run_seed"])
    path = os.path.join(REPLAY_DIR, name)
    doc = {"property": prop, "rig": v["rig"], "clause": v["clause"], "run_seed": v["run_seed"],
           "detail": v["detail"], "digest": digest, "code_rev": code_rev(), "scenario": sc_min}
    with open(path, "w") as f:
        json.dump(doc, f, indent=1, sort_keys=True)
    return path


def _sensitivity(prop):
    """Summary of the committed sensitivity records (NOT measured by this run):
    the mutant self-test and the seeded changes of independent sub-agents."""
    out = {"note": "read from committed files selftest_results/mutants.json and seeded/*/meta.json; not measured by this run"}
    try:
        mu = json.load(open(os.path.join(VERIF, "selftest_results", "mutants.json")))["results"]
        mine = [r for r in mu if r.get("property") == prop]
        out["mutants_killed"] = sorted(r["name"] for r in mine if r.get("status") == "killed")
        out["mutants_survived"] = sorted(r["name"] for r in mine if r.get("status") == "survived")
    except Exception:
        pass
    try:
        det, miss = [], []
        sd = os.path.join(VERIF, "seeded")
        for d in sorted(os.listdir(sd)):
            mp = os.path.join(sd, d, "meta.json")
            if os.path.exists(mp):
                m = json.load(open(mp))
                if m.get("property") == prop:
                    (det if m.get("check", {}).get("detected") else miss).append(d)
        out["seeded_detected"] = det
        out["seeded_missed"] = miss
    except Exception:
        pass
    return out


def run_check(prop, tier, seed, jobs, scale):
    t0 = _walltime.time()
    print("check %s tier=%s VERIF_SEED=%d jobs=%d repo=%s common=%s" % (prop, tier, seed, jobs, REPO, common_module()))
    sys.stdout.flush()
    known = [f for f in findings.load() if f.get("property") == prop]
    lines = []
    rc = 0
    n_known_still = 0
    new_violations = 0
    harness_fault = False

    # 1. reproducers of listed findings
    for f in known:
        sc = f.get("reproducer")
        if not sc:
            continue
        try:
            still = driver.fails_clause(sc, f["clause"])
        except Exception as e:
            print("HARNESS-ERROR reproducer %s: %r" % (f["id"], e))
            harness_fault = True
            continue
        if f["status"] == "open":
            if still:
                n_known_still += 1
                print("KNOWN-FINDING: property=%s %s [%s] %s" % (prop, f["id"], f["clause"], f["what"]))
            else:
                print("note: listed finding %s no longer reproduces on this tree" % f["id"])
        else:  # fixed: regression scenario, suppresses nothing
            if still:
                path = os.path.join(REPLAY_DIR, "%s-regression-%s.json" % (prop, f["id"]))
                os.makedirs(os.path.dirname(path), exist_ok=True)
                json.dump({"property": prop, "rig": sc["rig"], "clause": f["clause"], "run_seed": 0,
                           "detail": "regression of fixed finding " + f["id"], "scenario": sc,
                           "code_rev": code_rev()}, open(path, "w"), indent=1, sort_keys=True)
                print("VIOLATION property=%s replay=%s" % (prop, path))
                print("  (returned: fixed finding %s, %s)" % (f["id"], f["what"]))
                new_violations += 1
    sys.stdout.flush()

    # 2. exploration
    ex = driver.explore(prop, tier, seed, jobs, scale)
    for e in ex["harness_errors"]:
        print("HARNESS-ERROR worker: %s" % e)
        harness_fault = True

    # 3. violations: group, minimise, replay fresh twice, attribute
    groups = {}
    for v in sorted(ex["vios"], key=lambda v: (v["rig"], v["clause"], v["idx"])):
        key = (v["rig"], v["clause"], v["scenario"].get("fmt"), v["scenario"].get("variant"), v["scenario"].get("group"))
        groups.setdefault(key, []).append(v)
    attributed = {}
    # representatives: up to 2 per (rig, clause, format) group, 12 in all (every
    # violation when open findings exist, because each must then be attributed)
    has_open = any(f.get("status") == "open" for f in known)
    reps = []
    for key, vs in sorted(groups.items(), key=lambda kv: repr(kv[0])):
        reps.extend(vs[:(6 if has_open else 2)])
    reps = reps[:(60 if has_open else 12)]
    n_unminimised = sum(len(vs) for vs in groups.values()) - len(reps)
    minimised = driver.minimise_many(reps, jobs)
    if True:
        seen_rep = set()
        for v, sc_min in zip(reps, minimised):
            if (v["run_seed"], v["clause"], v["rig"]) in seen_rep:
                continue
            seen_rep.add((v["run_seed"], v["clause"], v["rig"]))
            res = driver.execute_scenario(sc_min)
            vv = [x for x in res["violations"] if x["clause"] == v["clause"]]
            if not vv:
                print("HARNESS-NONDETERMINISM %s seed=%d did not fail again in-process" % (v["clause"], v["run_seed"]))
                harness_fault = True
                continue
            v = dict(v)
            v["detail"] = vv[0]["detail"]
            path = _write_replay(prop, v, sc_min, res["digest"])
            r1 = driver.fresh_replay(path)
            r2 = driver.fresh_replay(path)
            fresh_agree = ("violations" in r1 and "violations" in r2 and r1["digest"] == r2["digest"]
                           and any(x["clause"] == v["clause"] for x in r1["violations"])
                           and any(x["clause"] == v["clause"] for x in r2["violations"]))
            ok = fresh_agree
            if fresh_agree and r1["digest"] != res["digest"]:
                # The replay file is the authority: two fresh interpreters agree and
                # fail the clause.  The in-process execution differed, which means the
                # code under test keeps state across instances within one process.
                print("note: in-process execution of %s differs from its fresh-interpreter replays (state shared across instances in one process?)" % os.path.basename(path))
            if not ok:
                print("HARNESS-NONDETERMINISM replay of %s differs: %s / %s" % (path, r1.get("digest", r1), r2.get("digest", r2)))
                harness_fault = True
                continue
            f = findings.attribute(known, sc_min, v)
            if f is not None:
                attributed.setdefault(f["id"], []).append(path)
                os.remove(path)
                continue
            print("VIOLATION property=%s replay=%s" % (prop, path))
            print("  %s: %s" % (v["clause"], v["detail"]))
            new_violations += 1
    for fid, paths in sorted(attributed.items()):
        print("note: %d explored violation(s) attributed to listed finding %s" % (len(paths), fid))
    if n_unminimised > 0:
        print("note: %d further violating runs of the same (rig, clause, format) groups were not minimised" % n_unminimised)

    wall = _walltime.time() - t0
    st = ex["stats"]
    total_runs = sum(p["runs"] for p in ex["per_rig"].values())
    sim_s = sum(p["sim_us"] for p in ex["per_rig"].values()) / 1e6
    faults = {k[len("fault."):]: n for k, n in sorted(st.c.items()) if k.startswith("fault.")}
    probes = {k[len("probe."):]: n for k, n in sorted(st.c.items()) if k.startswith("probe.")}
    other = {k: n for k, n in sorted(st.c.items()) if not k.startswith(("fault.", "probe."))}
    evals = int(st.c.get("evaluations", total_runs))
    cov = {
        "evaluations": max(evals, 1),
        "distinct_nontrivial": len(st.nt_sigs),
        "distinct_signatures_total": len(st.sigs),
        "rule": RULES[prop],
        "samples": st.samples[:6] or [{"note": "no run completed"}],
        "runs": total_runs,
        "runs_per_rig": {k: v["runs"] for k, v in sorted(ex["per_rig"].items())},
        "runs_planned_per_rig": ex["planned"],
        "runs_per_hour": int(total_runs / max(ex["wall"], 1e-6) * 3600),
        "evaluations_per_hour": int(evals / max(ex["wall"], 1e-6) * 3600),
        "simulated_seconds": round(sim_s, 3),
        "seam_steps": int(st.c.get("seam_steps", 0)),
        "faults_fired": faults,
        "reach_probes": probes,
        "counters": other,
        "states": len(st.states),
        "seeds": {"VERIF_SEED": seed, "derivation": "run_seed = sha256(VERIF_SEED, property, rig, index)",
                  "index_ranges": ex["planned"]},
        "real_code": REAL[prop],
        "stubs": STUB[prop],
        "common_module": common_module(),
        "code_rev": code_rev(),
        "known_findings_still_reproducing": n_known_still,
        "jobs": jobs,
    }
    cov["sensitivity_recorded_earlier"] = _sensitivity(prop)
    # reach probes and fault kinds this property's regimes are built to hit: a
    # counter stuck at zero means the workload no longer reaches that situation
    # (reported, never an alarm)
    missing = [k for k in REQUIRED_REACH.get(prop, []) if not (probes.get(k) or faults.get(k))]
    cov["reach_gaps"] = missing
    if missing and scale >= 1.0:
        print("note: REACH-GAP %s: these probes/faults did not fire in this run: %s" % (prop, ", ".join(missing)))
    ev = {"property_id": prop, "tier": tier, "seed": seed, "level": "exploration", "coverage": cov,
          "assumptions": ASSUME[prop], "wall_s": round(wall, 2), "violations": new_violations}
    os.makedirs(EVIDENCE_DIR, exist_ok=True)
    with open(os.path.join(EVIDENCE_DIR, prop + ".json"), "w") as f:
        json.dump(ev, f, indent=1, sort_keys=True)
    print("%s: runs=%d evaluations=%d distinct_nontrivial=%d sim_s=%.0f wall=%.1fs violations=%d known=%d" % (
        prop, total_runs, evals, len(st.nt_sigs), sim_s, wall, new_violations, n_known_still))
    for rig, p in sorted(ex["per_rig"].items()):
        if p["runs"] < ex["planned"].get(rig, 0):
            print("note: rig %s ran %d of %d planned runs (wall cap)" % (rig, p["runs"], ex["planned"][rig]))
    if new_violations:
        # a confirmed violation (replayed twice in fresh interpreters) decides the
        # verdict even if other candidates could not be reproduced standalone
        return 1
    if harness_fault:
        return 2
    if total_runs == 0:
        print("HARNESS-ERROR no run executed")
        return 2
    return 0


REQUIRED_REACH = {
    "C16": ["stream_with_escape", "two_escaped_1A_in_a_row", "1A_is_last_body_byte", "dollar_in_skysense_payload",
            "identity_frame_mid_frame", "read_of_8192_bytes_or_more", "batch_with_over_256_commb",
            "identical_frames_back_to_back", "connection_with_over_2000_reads", "recv_timeout_Again",
            "pipe_full_block_raw", "tcp_coalesced_reads", "reconnect_with_fresh_client", "disk_open_ENOSPC",
            "preempted_at_poll_decoder"],
    "C17": ["global_pair_update", "reference_update", "pair_none_nl_straddle", "pair_raise_swallowed",
            "update_near_equator", "update_near_antimeridian", "start_edge",
            "position_update_after_outage_over_1100s_while_listed", "position_outage_270_900s_then_surface",
            "half_hour_continuous_track", "clock_tick_boundary", "one_parity_outage_msgs", "disk_open_ENOSPC",
            "decoder_stalled_with_batches_queued", "preempted_at_recv_decoder"],
    "C19": ["odd_start_offset", "amp_below_0.4", "amp_above_1.3", "snr_below_14dB_window", "frame_ends_at_window_edge",
            "two_frames_at_min_gap", "same_frame_twice_in_a_row", "noise_level_dropped_by_half_or_more",
            "dense_first_buffer_no_quiet_window_in_first_12800_samples",
            "packed_buffer_without_any_quiet_window_after_a_quiet_one", "weak_frame_in_trailing_partial_noise_window",
            "per_pulse_amplitudes_anywhere_in_0.3_1.4", "one_reader_over_40_or_more_buffers", "corrupted_df17",
            "dropout_in_df17", "clock_jump_between_reads", "preempted_at_time_source"],
}

RULES = {
    "C16": "Each run draws a frame stream (format, frame kinds, payload bytes biased to 0x1A/'$') and a set of delivery histories "
           "(one piece, every single cut, all/sampled cut pairs, seeded multi-cuts, 1-byte dribble, targeted cuts from the reference "
           "structure; in R1b/R3 also time-outs, ZMQ id frames, pipe capacity and the scheduler tape). One evaluation = one delivery "
           "history executed against the real code with the oracle evaluated after every piece. Signature = hash(format, variant, "
           "frame-kind sequence, sequence of abstract cut classes [in-escape, after-lead, before/in ts|sig|body, boundary ...]) for R1a, "
           "hash of the (task, op) sequence at scheduling points for R1b/R3. Non-trivial = at least one cut strictly inside a frame "
           "(parser carry-over) or at least one fault/blocking event. distinct_nontrivial counts distinct non-trivial signatures.",
    "C17": "Each run draws a world (aircraft, trajectories, receiver), a channel fault plan (loss, duplication, gaps, bursts), batching and "
           "a tnow sequence; one evaluation = one process_raw call on twin instances with all oracle clauses evaluated after it. "
           "Signature = hash of the abstract transition-label sequence of the run {new, ref, pair, none, mixed, evict, grey, commb-hit, "
           "commb-miss, tick}; non-trivial = contains at least one fault (loss/dup/gap/jump) or carry-over transition (ref/pair/evict). "
           "For R3, hash of the (task, op) schedule.",
    "C19": "Each run draws frames, start offsets, amplitudes, a noise shape/level and bit-error faults over a sequence of buffers on one "
           "RtlReader instance; one evaluation = one _process_buffer call compared with the exact expected list. Signature = hash of "
           "(frame kind, SNR bucket, offset parity, amplitude bucket, corrupted?) sequence per window; non-trivial = the window contains "
           "at least one frame with noise > 0 or a corrupted frame, or carries state from an earlier window.",
}
