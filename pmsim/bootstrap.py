"""Locate the working tree, install the fake ``rtlsdr`` module and import
pyModeS from the tree (never from site-packages).

``PMSIM_REPO`` overrides the repository root; it exists for the mutant
self-test, which runs the same checks against a scratch copy.
"""
import os
import sys
import types

REPO = os.environ.get("PMSIM_REPO", "/repo")
SRC = os.path.join(REPO, "src")

_state = {}


class _FakeRtlSdrDevice(object):
    """Stand-in for rtlsdr.RtlSdr.  The rig replaces ``read_samples``."""

    def __init__(self, *a, **k):
        self.sample_rate = None
        self.center_freq = None
        self.gain = None
        self.closed = False
        self._reader = None

    def read_samples(self, n):
        if self._reader is None:
            raise IOError("no simulated RF environment attached")
        return self._reader(n)

    def close(self):
        self.closed = True


def boot():
    """Idempotent.  Returns the imported pyModeS package."""
    if "pms" in _state:
        return _state["pms"]
    if SRC in sys.path:
        sys.path.remove(SRC)
    sys.path.insert(0, SRC)
    # never write .pyc files into /repo
    sys.dont_write_bytecode = True
    fake = types.ModuleType("rtlsdr")
    fake.RtlSdr = _FakeRtlSdrDevice
    fake.__pmsim_fake__ = True
    sys.modules["rtlsdr"] = fake
    import pyModeS as pms

    here = os.path.realpath(pms.__file__)
    if not here.startswith(os.path.realpath(SRC) + os.sep):
        raise RuntimeError("pyModeS imported from %s, expected under %s" % (here, SRC))
    import pyModeS.extra.tcpclient  # noqa
    import pyModeS.extra.rtlreader  # noqa
    import pyModeS.streamer.source  # noqa
    import pyModeS.streamer.decode  # noqa

    _state["pms"] = pms
    _state["common"] = pms.common.__name__
    return pms


def common_module():
    boot()
    return _state["common"]


def code_rev():
    """Short description of the tree under test (for replay files)."""
    import subprocess

    try:
        head = subprocess.run(
            ["git", "-C", REPO, "rev-parse", "--short", "HEAD"],
            capture_output=True, text=True, timeout=20,
        ).stdout.strip()
        dirty = subprocess.run(
            ["git", "-C", REPO, "status", "--porcelain", "--untracked-files=no"],
            capture_output=True, text=True, timeout=20,
        ).stdout.strip()
        return head + ("+dirty" if dirty else "")
    except Exception:
        return "unknown"
