"""Seed derivation, digests, counters.  No wall-clock reads, no global PRNG."""
import hashlib
import json
import random
import zlib
from collections import Counter


def derive(*parts):
    """Deterministic 63-bit integer from a tuple of printable parts."""
    h = hashlib.sha256(("\x1f".join(str(p) for p in parts)).encode()).digest()
    return int.from_bytes(h[:8], "big") >> 1


def substream(run_seed, label):
    """Independent labelled PRNG so that editing one generator dimension does
    not reshuffle the others."""
    return random.Random(derive(run_seed, label))


def h64(obj):
    """Stable 64-bit hash of a JSON-able / tuple object (no PYTHONHASHSEED)."""
    b = repr(obj).encode()
    return int.from_bytes(hashlib.blake2b(b, digest_size=8).digest(), "big")


def crc32(b):
    if isinstance(b, str):
        b = b.encode()
    return zlib.crc32(b) & 0xFFFFFFFF


class EventLog(object):
    """Append-only event log with a running digest.  Logging draws nothing from
    any PRNG and reads no clock."""

    __slots__ = ("h", "n", "keep", "events")

    def __init__(self, keep=False):
        self.h = hashlib.sha256()
        self.n = 0
        self.keep = keep
        self.events = []

    def add(self, *ev):
        self.n += 1
        s = repr(ev)
        self.h.update(s.encode())
        self.h.update(b"\n")
        if self.keep:
            self.events.append(ev)

    def digest(self):
        return self.h.hexdigest()[:32]


def canon(obj):
    return json.dumps(obj, sort_keys=True, separators=(",", ":"))


class Stats(object):
    """Mergeable run statistics."""

    def __init__(self):
        self.c = Counter()
        self.sigs = set()       # all distinct history signatures (64-bit)
        self.nt_sigs = set()    # the non-trivial ones
        self.states = set()     # distinct abstract states
        self.samples = []

    def merge(self, other):
        self.c.update(other.c)
        # bounded memory: beyond the cap the counts are lower bounds
        if len(self.sigs) < 4000000:
            self.sigs |= other.sigs
        else:
            self.c["signature_cap_hit"] += 1
        if len(self.nt_sigs) < 4000000:
            self.nt_sigs |= other.nt_sigs
        if len(self.states) < 4000000:
            self.states |= other.states
        for s in other.samples:
            if len(self.samples) < 6:
                self.samples.append(s)

    def sig(self, obj, nontrivial):
        v = h64(obj)
        if len(self.sigs) < 1500000:
            self.sigs.add(v)
        if nontrivial and len(self.nt_sigs) < 1500000:
            self.nt_sigs.add(v)
