"""R1a - stream framers, direct.

Real code: TcpClient.read_beast_buffer, read_beast_buffer_rssi_piaware,
read_raw_buffer, read_skysense_buffer on a real TcpClient instance, driven
exactly at the property's observe_at: ``buffer.extend(piece)`` then parse.
The history that is searched is the *segmentation* of a fixed byte stream.
"""
import itertools

from .. import wire
from ..fakes import StepClock
from ..util import substream, EventLog, Stats, h64
from ..shrink import ddmin_list, shrink_each, Budget

NAME = "r1a"
PROP = "C16"

_mods = {}


def _setup():
    if _mods:
        return _mods
    from ..bootstrap import boot

    boot()
    import pyModeS.extra.tcpclient as tc

    clock = StepClock()
    tc.time = clock
    _mods["tc"] = tc
    _mods["clock"] = clock
    return _mods


PARSERS = {
    ("beast", "plain"): "read_beast_buffer",
    ("beast", "rssi"): "read_beast_buffer_rssi_piaware",
    ("raw", "plain"): "read_raw_buffer",
    ("skysense", "plain"): "read_skysense_buffer",
}


# ---------------------------------------------------------------------------
def generate(run_seed, tier):
    rw = substream(run_seed, "world")
    rc = substream(run_seed, "cuts")
    fmt = rw.choice(["beast", "beast", "beast", "raw", "skysense"])
    variant = "plain"
    if fmt == "beast" and rw.random() < 0.25:
        variant = "rssi"
    nmax = rw.choice([1, 2, 3, 3, 5, 5, 8, 12, 20, 40])
    n = rw.randint(1, nmax)
    p_hot = rw.choice([0.0, 0.02, 0.05, 0.1, 0.2, 0.4])
    if fmt == "beast":
        frames = [wire.gen_beast_frame(rw, p_hot) for _ in range(n)]
        if variant == "rssi" and rw.random() < 0.8:
            # a zero signal byte is explored, but not in every rssi stream
            for f in frames:
                if f["sig"] == 0:
                    f["sig"] = 1
    elif fmt == "raw":
        frames = [wire.gen_raw_frame(rw, p_hot) for _ in range(n)]
    else:
        frames = [wire.gen_skysense_frame(rw, p_hot) for _ in range(n)]
    if rw.random() < 0.25 and len(frames) < 40:
        # byte-identical frames back to back (a repeated reply, same stamp)
        out = []
        for f in frames:
            out.append(f)
            if rw.random() < 0.3:
                out.append(dict(f))
                if rw.random() < 0.3:
                    out.append(dict(f))
        frames = out[:44]
    st = wire.serialise(fmt, frames)
    L = len(st.data)
    segs = [{"cuts": []}]
    segs.append({"all_singles": True})
    if L <= 80:
        segs.append({"all_pairs": True})
    else:
        k = 40 if tier == "quick" else 400
        for _ in range(k):
            a, b = sorted(rc.sample(range(1, L), 2)) if L > 2 else (1, 1)
            segs.append({"cuts": sorted(set([a, b]))})
    # targeted cuts computed from the reference structure
    tgt = set()
    for e in st.escapes:
        tgt.update([e, e + 1, e + 2])
    for (s, e) in st.spans:
        tgt.update([s, s + 1, s + 2, e - 1, e, e + 1, e + 2])
    tgt = sorted(c for c in tgt if 0 < c < L)
    nmulti = 20 if tier == "quick" else 120
    for _ in range(nmulti):
        style = rc.random()
        cuts = set()
        if style < 0.3 and tgt:
            for c in rc.sample(tgt, min(len(tgt), rc.randint(1, 6))):
                cuts.add(c)
        elif style < 0.6:
            pos = 0
            while pos < L:
                step = rc.choice([1, 1, 2, 3, int(rc.expovariate(1 / 8.0)) + 1, int(rc.expovariate(1 / 40.0)) + 1])
                pos += step
                if 0 < pos < L:
                    cuts.add(pos)
                if len(cuts) >= 64:
                    break
        else:
            m = rc.randint(2, 8)
            for _ in range(m):
                if L > 1:
                    cuts.add(rc.randrange(1, L))
            if tgt and rc.random() < 0.5:
                cuts.add(rc.choice(tgt))
        segs.append({"cuts": sorted(cuts)})
    if L <= 400 or tier != "quick":
        segs.append({"dribble": True})
    if tgt:
        segs.append({"cuts": tgt[:64]})
    # an earlier connection in the same process (reconnect with a fresh client
    # object): its frames must not leak into this one
    prev = []
    if rw.random() < 0.5:
        gen = {"beast": wire.gen_beast_frame, "raw": wire.gen_raw_frame, "skysense": wire.gen_skysense_frame}[fmt]
        prev = [gen(rw, 0.0) for _ in range(rw.choice([1, 2]))]
    return {"rig": NAME, "prop": PROP, "fmt": fmt, "variant": variant,
            "frames": frames, "segs": segs, "prev": prev}


def _expand(seg, L):
    if "cuts" in seg:
        yield list(seg["cuts"])
    elif seg.get("all_singles"):
        for c in range(1, L):
            yield [c]
    elif seg.get("all_pairs"):
        for a, b in itertools.combinations(range(1, L), 2):
            yield [a, b]
    elif seg.get("dribble"):
        yield list(range(1, L))


# ---------------------------------------------------------------------------
def run_segmentation(m, st, fmt, variant, cuts, log=None):
    """Feed one segmentation to a fresh TcpClient.  Returns None or a violation
    dict.  ``cuts`` are strictly increasing offsets in (0, len)."""
    tc = m["tc"]
    clock = m["clock"]
    clock.now_us = 0
    client = tc.TcpClient("sim", 0, fmt)
    parse = getattr(client, PARSERS[(fmt, variant)])
    data = st.data
    bounds = [0] + list(cuts) + [len(data)]
    got = []
    expect = st.expect
    for k in range(len(bounds) - 1):
        piece = data[bounds[k]:bounds[k + 1]]
        plen = bounds[k + 1]
        clock.now_us += 1000
        client.buffer.extend(piece)
        try:
            out = parse()
        except Exception as ex:  # noqa
            return {"clause": "C16.e", "detail": "parser raised %s: %s after piece %d (prefix %d bytes)" % (
                type(ex).__name__, ex, k, plen), "piece": k}
        if out is None:
            out = []
        for item in out:
            got.append(str(item[0]).upper())
        if log is not None:
            log.add(k, plen, len(piece), [x[0] for x in out])
        ng = len(got)
        if ng > len(expect) or got != expect[:ng]:
            # first differing index
            j = 0
            while j < ng and j < len(expect) and got[j] == expect[j]:
                j += 1
            return {"clause": "C16.a", "piece": k,
                    "detail": "after piece %d (prefix %d B) handed[%d]=%s but frame[%d]=%s" % (
                        k, plen, j, got[j] if j < ng else None, j, expect[j] if j < len(expect) else None)}
        if ng > st.done(plen):
            return {"clause": "C16.b", "piece": k,
                    "detail": "after piece %d (prefix %d B) %d frames handed but only %d completely received" % (
                        k, plen, ng, st.done(plen))}
        if ng < st.closed(plen):
            return {"clause": "C16.c", "piece": k,
                    "detail": "after piece %d (prefix %d B) %d frames handed but %d are complete and followed by the next frame start" % (
                        k, plen, ng, st.closed(plen))}
    return None


def execute(sc, keep_log=False):
    m = _setup()
    st = wire.serialise(sc["fmt"], sc["frames"])
    L = len(st.data)
    stats = Stats()
    log = EventLog(keep=keep_log)
    violations = []
    evals = 0
    fmt, variant = sc["fmt"], sc["variant"]
    stats.c["streams.%s.%s" % (fmt, variant)] += 1
    if sc.get("prev"):
        # the earlier connection: another client object, whole stream in one read
        pst = wire.serialise(fmt, sc["prev"])
        c0 = m["tc"].TcpClient("sim", 0, fmt)
        c0.buffer.extend(pst.data)
        try:
            getattr(c0, PARSERS[(fmt, variant)])()
        except Exception:
            pass
        stats.c["fault.reconnect_with_fresh_client"] += 1
    stats.c["frames"] += len(sc["frames"])
    if fmt == "beast":
        stats.c["probe.stream_with_escape"] += 1 if st.escapes else 0
        d = st.data
        if b"\x1a\x1a\x1a\x1a" in d:
            stats.c["probe.two_escaped_1A_in_a_row"] += 1
        for (s, e) in st.spans:
            if d[e - 2:e] == b"\x1a\x1a":
                stats.c["probe.1A_is_last_body_byte"] += 1
        if any(f["k"] in "14" for f in sc["frames"]):
            stats.c["probe.other_beast_types_interleaved"] += 1
        if variant == "rssi" and any(f["sig"] == 0 for f in sc["frames"]):
            stats.c["probe.rssi_signal_byte_zero"] += 1
    if fmt == "skysense":
        for f in sc["frames"]:
            if "24" in [f["body"][i:i + 2] for i in range(0, 28, 2)]:
                stats.c["probe.dollar_in_skysense_payload"] += 1
                break
    if any(a == b for a, b in zip(sc["frames"], sc["frames"][1:])):
        stats.c["probe.identical_frames_back_to_back"] += 1
    kinds = "".join(f.get("k", "L" if len(f.get("txt", f.get("body", ""))) == 28 else "S") for f in sc["frames"])
    for seg in sc["segs"]:
        for cuts in _expand(seg, L):
            evals += 1
            log.add("seg", cuts if len(cuts) < 8 else (len(cuts), h64(cuts)))
            v = run_segmentation(m, st, fmt, variant, cuts, log)
            classes = wire.cut_classes(st, cuts[:12])
            for c in classes:
                stats.c["cut." + c] += 1
            nontrivial = any(c != "boundary" for c in classes)
            stats.sig((fmt, variant, kinds[:12], tuple(classes)), nontrivial)
            if v is not None:
                v = dict(v)
                v["cuts"] = cuts if len(cuts) <= 64 else cuts[:64]
                v["focus"] = {"cuts": cuts}
                violations.append(v)
                stats.c["violations." + v["clause"]] += 1
                if len(violations) >= 1:
                    break
        if violations:
            break
    stats.c["evaluations"] += evals
    stats.c["seam_steps"] += log.n
    if not stats.samples:
        stats.samples.append({"rig": NAME, "fmt": fmt, "variant": variant,
                              "frames": sc["frames"][:3], "n_frames": len(sc["frames"]),
                              "stream_bytes": L, "segmentations": evals,
                              "example_cuts": next(_expand(sc["segs"][-1], L))[:16]})
    return {"violations": violations, "stats": stats, "digest": log.digest(),
            "log": log.events if keep_log else None, "evals": evals, "sim_us": evals * 1000}


# ---------------------------------------------------------------------------
def focus(sc, violation):
    """Reduce the scenario to the one failing segmentation."""
    sc = dict(sc)
    sc["segs"] = [{"cuts": list(violation["focus"]["cuts"])}]
    return sc


def shrink(sc, fails, budget_n=400):
    """fails(scenario) -> bool (same clause still violated)."""
    b = Budget(budget_n)
    sc = dict(sc)

    # 1. fewer frames
    def t_frames(fr):
        if not fr:
            return False
        c = dict(sc)
        c["frames"] = fr
        L = len(wire.serialise(c["fmt"], fr).data)
        c["segs"] = [{"cuts": [x for x in sc["segs"][0]["cuts"] if x < L]}]
        return fails(c)

    # dropping frames shifts offsets: try dropping from the tail first, then
    # from the head while shifting the cuts accordingly
    frames = list(sc["frames"])
    while len(frames) > 1 and b.take():
        if t_frames(frames[:-1]):
            frames = frames[:-1]
        else:
            break
    sc["frames"] = frames
    L = len(wire.serialise(sc["fmt"], frames).data)
    sc["segs"] = [{"cuts": [x for x in sc["segs"][0]["cuts"] if x < L]}]
    while len(sc["frames"]) > 1 and b.take():
        first = wire.serialise(sc["fmt"], sc["frames"][:1], sentinel=False)
        shift = len(first.data)
        c = dict(sc)
        c["frames"] = sc["frames"][1:]
        c["segs"] = [{"cuts": [x - shift for x in sc["segs"][0]["cuts"] if x - shift > 0]}]
        if fails(c):
            sc = c
        else:
            break

    # 2. fewer cuts
    def t_cuts(cuts):
        c = dict(sc)
        c["segs"] = [{"cuts": list(cuts)}]
        return fails(c)

    cuts = ddmin_list(sc["segs"][0]["cuts"], t_cuts, b)
    sc["segs"] = [{"cuts": cuts}]

    # 3. simpler bytes: zero the ts, sig, body bytes where the failure persists
    def simpler(f):
        out = []
        if sc["fmt"] == "beast":
            g = dict(f); g["ts"] = "000000000000"; out.append(g)
            g = dict(f); g["sig"] = 1; out.append(g)
            body = f["body"]
            z = body[:2] + "00" * (len(body) // 2 - 1)
            g = dict(f); g["body"] = z; out.append(g)
        elif sc["fmt"] == "skysense":
            g = dict(f); g["ts"] = "000000000000"; g["rs"] = "000000"; out.append(g)
            g = dict(f); g["body"] = f["body"][:2] + "00" * 13; out.append(g)
        else:
            g = dict(f); g["sep"] = ""; out.append(g)
            g = dict(f); g["txt"] = f["txt"].upper(); out.append(g)
        return out

    def t_fr(fr):
        c = dict(sc)
        c["frames"] = fr
        L = len(wire.serialise(c["fmt"], fr).data)
        c["segs"] = [{"cuts": [x for x in sc["segs"][0]["cuts"] if x < L]}]
        return fails(c)

    sc["frames"] = shrink_each(sc["frames"], simpler, t_fr, b)
    L = len(wire.serialise(sc["fmt"], sc["frames"]).data)
    sc["segs"] = [{"cuts": [x for x in sc["segs"][0]["cuts"] if x < L]}]
    # cuts again, and each cut toward the front
    cuts = ddmin_list(sc["segs"][0]["cuts"], t_cuts, b)
    sc["segs"] = [{"cuts": cuts}]
    return sc
