"""R2 - live aircraft table, direct.

Real code: Decode.process_raw(adsb_ts, adsb_msg, commb_ts, commb_msg, tnow) and
Decode.get_aircraft() on twin instances (upper-case history / lower- or
mixed-case rendering of the same history), plus every decoder they call.
The searched space is the *history*: which messages the channel loses,
duplicates or silences, how calls are batched, what the clock reads.
"""
import math

from .. import refenc as R
from .. import world as W
from ..fakes import StepClock
from ..util import substream, EventLog, Stats, crc32
from ..shrink import ddmin_list, Budget

NAME = "r2"
PROP = "C17"

COMMB_FIELDS = ["tas", "roll", "rtrk", "trk50", "gs50", "ias", "hdg", "mach", "roc60baro", "roc60ins", "t50", "t60",
                "hum44", "p44", "temp44", "turb44", "wind44"]
PROVENANCE = [("tas", "tas50"), ("roll", "roll50"), ("rtrk", "rtrk50"), ("trk50", "trk50"), ("gs50", "gs50"),
              ("ias", "ias60"), ("hdg", "hdg60"), ("mach", "mach60"), ("roc60baro", "vr60baro"), ("roc60ins", "vr60ins")]
BOUNDARY = [58.9, 59.0, 59.5, 60.0, 60.5, 61.0, 61.001, 62.5]
GAPS = [3, 9.5, 9.99, 10.01, 12, 30, 58, 60.5, 62, 100, 179, 179.9, 180.1, 200, 400]
BASES = [0.0, 0.0, 100.25, -500.0, 1.7e9, 2147483648.5]

_mods = {}


def _setup():
    if _mods:
        return _mods
    from ..bootstrap import boot

    pms = boot()
    import pyModeS.streamer.decode as dec

    clock = StepClock()
    dec.time = clock
    _mods["dec"] = dec
    _mods["pms"] = pms
    _mods["clock"] = clock
    # harness-side probes around the two position entry points (behaviour
    # preserving wrappers; they only count)
    probe = {"pair_ok": 0, "pair_none": 0, "pair_raise": 0, "ref": 0}
    adsb = pms.adsb
    orig_pos, orig_ref = adsb.position, adsb.position_with_ref

    def position(*a, **k):
        try:
            r = orig_pos(*a, **k)
        except BaseException:
            probe["pair_raise"] += 1
            raise
        probe["pair_ok" if r is not None else "pair_none"] += 1
        return r

    def position_with_ref(*a, **k):
        probe["ref"] += 1
        return orig_ref(*a, **k)

    adsb.position = position
    adsb.position_with_ref = position_with_ref
    _mods["probe"] = probe
    return _mods


# ---------------------------------------------------------------------------
# generation

def _interesting_start(rng, ground):
    kind = rng.choice(["nl", "nl", "equator", "lon0", "lon90", "anti", "anti", "high", "rand", "rand", "eq_anti", "edge", "edge"])
    lat = rng.uniform(-80, 80)
    lon = rng.uniform(-180, 180)
    if kind == "edge":
        # on (or a few CPR bins from) a CPR zone edge, where the transmitted
        # 17-bit field is 0 / wraps: latitude zone edge, longitude zone edge or both
        i = rng.choice([0, 1])
        span = 90.0 if ground else 360.0
        nb = 19 if ground else 17
        dlat = span / (60 - i)
        binlat = (360.0 / (60 - i)) / (1 << nb)
        which = rng.choice(["lat", "lon", "both"])
        if which in ("lat", "both"):
            lat = dlat * rng.randint(-int(80 / dlat), int(80 / dlat)) + binlat * rng.choice([0, 0, -1, 1, -3, 2, -0.4])
        if which in ("lon", "both"):
            ni = max(R.NL(lat) - i, 1)
            dlon = span / ni
            binlon = (360.0 / ni) / (1 << nb)
            lon = dlon * rng.randint(-int(179 / dlon), int(179 / dlon)) + binlon * rng.choice([0, 0, -1, 1, -3, 2, -0.4])
            lon = ((lon + 180) % 360) - 180
    elif kind == "nl":
        tl = rng.choice(R.NL_LATS)
        lat = rng.choice([-1, 1]) * (tl + rng.uniform(-0.05, 0.05))
    elif kind == "equator":
        lat = rng.uniform(-0.08, 0.08)
    elif kind == "lon0":
        lon = rng.uniform(-0.1, 0.1)
    elif kind == "lon90":
        lon = rng.choice([-90, 90]) + rng.uniform(-0.1, 0.1)
    elif kind == "anti":
        lon = rng.choice([-180, 180]) + rng.uniform(-0.1, 0.1)
        lon = ((lon + 180) % 360) - 180
    elif kind == "high":
        lat = rng.choice([-1, 1]) * rng.uniform(80, 86.3)
    elif kind == "eq_anti":
        lat = rng.uniform(-0.05, 0.05)
        lon = ((rng.choice([-180, 180]) + rng.uniform(-0.05, 0.05) + 180) % 360) - 180
    lat = max(-86.3, min(86.3, lat))
    return kind, lat, lon


def _gen_aircraft(rng, idx, T, used, fast=False, land_at=None):
    while True:
        icao = "%06X" % rng.randrange(1, 1 << rng.choice([24, 24, 24, 20, 16, 8]))   # some with leading zero nibbles
        if icao not in used:
            used.add(icao)
            break
    starts_ground = rng.random() < 0.3 and not fast
    kind, lat, lon = _interesting_start(rng, starts_ground)
    hdg = rng.choice([0, 90, 180, 270, rng.uniform(0, 360), rng.uniform(0, 360)])
    legs = []
    t = 0.0
    ground = starts_ground
    if kind == "edge" and ground:
        # creep over the edge so that several squitters carry the wrapping bins
        legs.append([rng.choice([20, 60]), rng.choice([0, 0.1, 0.1, 1.0, 3]), 0, 1, 0.0, 0.0])
        hdg = rng.choice([0, 90, 180, 270, 45])
        t += legs[0][0]
    alt = 0.0 if ground else rng.choice([1000, 5000, 12000, 35000, 41000])
    while t < T:
        dur = rng.choice([10, 20, 40, 80, 150, 300])
        if land_at is not None and not ground and t >= land_at:
            ground = True   # touch-down after the long flight: surface squitters from here on
        if ground:
            gs = rng.choice([0, 0.1, 3, 12, 30, 80, 140, 170])
            turn = rng.choice([0, 0, 0, 2, -2, 6])
            legs.append([dur, gs, turn, 1, 0.0, 0.0])
        else:
            gs = rng.choice([90, 180, 250, 400, 480, 560, 590])
            turn = rng.choice([0, 0, 0, 0.5, -0.5, 1.5, -3, 3])
            if fast:
                gs, turn = rng.choice([560, 590]), 0
            vr = rng.choice([0, 0, 0, 1500, -1500, 3000, -2500])
            legs.append([dur, gs, turn, 0, None, vr])
        t += dur
        if rng.random() < 0.25 and not fast:
            ground = not ground
            if not ground:
                legs.append([10, 150, 0, 0, 0.0, 2000])
                t += 10
    ac = {"icao": icao, "call": "".join(rng.choice("ABCDEFGHIJKLMNOPQRSTUVWXYZ0123456789 ") for _ in range(rng.randint(3, 8))),
          "df18": rng.random() < 0.2, "gnss_pos": rng.random() < 0.3, "start_kind": kind,
          "traj": {"lat": lat, "lon": lon, "hdg": hdg, "legs": legs}}
    return ac


def _quant(t, mode):
    if mode == "int":
        return float(math.floor(t))
    if mode == "ms":
        return math.floor(t * 1000) / 1000.0
    if mode == "half":
        return math.floor(t * 2) / 2.0
    return t


def _noisy_frame(rng, addr):
    df = rng.choice([17, 17, 18, 20, 21])
    style = rng.random()
    if df in (17, 18):
        if style < 0.15:
            me = "00" * 7
        elif style < 0.3:
            me = "FF" * 7
        elif style < 0.6:
            tc = rng.choice([0, 23, 24, 25, 26, 27, 30, 19, 28, 29, 31, 5, 9, 20, 1])
            rest = rng.getrandbits(51)
            if rng.random() < 0.3:
                rest = rng.choice([0, (1 << 51) - 1])
            me = "%014X" % ((tc << 51) | rest)
        else:
            me = "%014X" % rng.getrandbits(56)
        first = (df << 3) | rng.randrange(8)
        data = "%02X" % first + addr + me
        if rng.random() < 0.5:
            return R.frame_with_parity(data)
        return data + "%06X" % rng.getrandbits(24)
    mb = rng.choice(["00" * 7, "FF" * 7, "%014X" % rng.getrandbits(56), "%014X" % rng.getrandbits(56)])
    head = "%08X" % (((df << 27) | rng.getrandbits(27)) & 0xFFFFFFFF)
    return R.frame_with_parity(head + mb, int(addr, 16))


def gen_world(rw, rf, T, budget, base=None, tmode=None, n_clean=None, outage=False, steady=False):
    """World + channel: returns dict(base, tmode, receiver, aircraft, noisy,
    msgs) with msgs = sorted [(t_rel, seq, 'a'|'c', hex, addr)]."""
    if base is None:
        base = rw.choice(BASES + [-float(int(T / 2)), -float(int(T / 3)) - 0.5])   # some time axes run through zero
    if tmode is None:
        tmode = rw.choice(["float", "float", "ms", "int", "half"])
    if n_clean is None:
        n_clean = rw.choice([1, 1, 2, 2, 3, 4, 6])
    used = set()
    landing = outage and rw.random() < 0.35   # position outage in flight, positions resume on the ground
    land_at = rw.choice([330, 500, 700, 880]) if landing else None
    acs = [_gen_aircraft(rw, i, T, used, fast=(outage or steady) and (landing or rw.random() < 0.85), land_at=land_at) for i in range(n_clean)]
    # receiver: near a ground-capable aircraft (within ~0.3 deg), placed on
    # either side of equator / antimeridian / Greenwich when the start is there
    rcv = None
    if rw.random() < 0.85:
        a = rw.choice(acs)
        edgy = [x for x in acs if x["start_kind"] == "edge" and x["traj"]["legs"][0][3] == 1]
        if edgy and rw.random() < 0.7:
            a = edgy[0]
        if rw.random() < 0.6:
            dla, dlo = rw.uniform(-0.3, 0.3), rw.uniform(-0.3, 0.3)
        else:
            # a nominal receiver location far from the airport (network feed):
            # the surface pair decode only needs it within +-45 deg of the target
            dla = rw.choice([-1, 1]) * rw.choice([0.8, 1.6, 3.0, 10.0, 20.0])
            dlo = rw.choice([-1, 1]) * rw.choice([0.8, 1.6, 3.0, 10.0, 25.0])
        rcv = [a["traj"]["lat"] + dla, ((a["traj"]["lon"] + dlo + 180) % 360) - 180]
        rcv[0] = max(-89.0, min(89.0, rcv[0]))
    # only aircraft starting near the receiver may have ground legs (45 NM rule)
    for a in acs:
        near = rcv is not None and abs(a["traj"]["lat"] - rcv[0]) <= 26.0 and W.lon_diff(a["traj"]["lon"], rcv[1]) <= 31.0
        if not near and rcv is not None:
            # keep ground legs only if the receiver is near; otherwise make them slow flight
            for leg in a["traj"]["legs"]:
                if leg[3] == 1:
                    leg[1], leg[3], leg[4], leg[5] = max(leg[1], 90), 0, 1000.0, 0.0
    # ... and every ground leg must stay within reach of the surface pair decode
    # (receiver within +-45 deg of the target in latitude and longitude; 30/35 deg
    # used) for its whole duration
    if rcv is not None:
        for a in acs:
            for _ in range(6):
                tr = W.Traj(a["traj"])
                bad = None
                tcur = 0.0
                for li, leg in enumerate(a["traj"]["legs"]):
                    n = max(1, int(round(leg[0] / W.DT)))
                    if leg[3] == 1:
                        for k in range(0, n + 1, 4):
                            la, lo = tr.pos(tcur + k * W.DT)
                            if abs(la - rcv[0]) > 30.0 or W.lon_diff(lo, rcv[1]) > 35.0:
                                bad = li
                                break
                    if bad is not None:
                        break
                    tcur += n * W.DT
                if bad is None:
                    break
                leg = a["traj"]["legs"][bad]
                leg[1], leg[3], leg[4], leg[5] = max(leg[1], 90), 0, 1000.0, 0.0
            else:
                for leg in a["traj"]["legs"]:
                    if leg[3] == 1:
                        leg[1], leg[3], leg[4], leg[5] = max(leg[1], 90), 0, 1000.0, 0.0
    msgs = []  # (t_rel, seq, kind 'a'|'c', hex, icao)
    seq = 0
    per_ac_budget = max(40, budget // (n_clean + 1))
    for a in acs:
        tr = W.Traj(a["traj"])
        style = rw.choice(["fast", "fast", "medium", "sparse", "parity_runs"])
        if outage:
            style = "outage"   # every 3-9 s: never silent long enough to be evicted
        if steady:
            style = "steady"   # every 1.5-4.5 s for half an hour: hundreds of position reports, continuous track
        p_loss = rf.choice([0.0, 0.0, 0.1, 0.3, 0.6]) if not (outage or steady) else rf.choice([0.0, 0.1])
        p_dup = rf.choice([0.0, 0.0, 0.05, 0.2])
        gaps = []
        for _ in range(rf.choice([0, 0, 1, 2, 3]) if not (outage or steady) else 0):
            g0 = rf.uniform(0, T)
            gaps.append((g0, g0 + rf.choice(GAPS)))
        # position-only outage: the position squitters are lost for a long time
        # while other messages keep the aircraft listed
        par_out = None
        if steady and rf.random() < 0.6:
            # one parity of the position squitters is lost for a couple of minutes
            p0 = rf.uniform(60, T * 0.8)
            par_out = (p0, p0 + rf.choice([30, 120, 300]), rf.choice([0, 1]))
        pos_out = None
        if (outage or rf.random() < 0.1) and not steady:
            o0 = rf.uniform(0, T * 0.4) if not outage else rf.uniform(20, 250)
            pos_out = (o0, o0 + (rf.choice([150, 179, 181, 200, 400]) if not outage else rf.choice([1150, 1300, 1300, 1500])))
            if landing:
                o0 = rf.uniform(15, 40)
                pos_out = (o0, land_at + rf.choice([-20, 0, 5, 30]))   # 270-900 s without positions, > 45 NM flown
        a["faults"] = {"p_loss": p_loss, "p_dup": p_dup, "gaps": gaps, "style": style, "pos_outage": pos_out, "parity_outage": par_out}
        ver = rw.choice([0, 1, 2, 2, None])
        t = rw.uniform(0, min(30, T / 3))
        odd = rw.random() < 0.5
        n = 0
        while t < T and n < per_ac_budget:
            tq = _quant(t, tmode)
            bits = rw.getrandbits(60)
            r = rw.random()
            if r < 0.55:
                kind, hexm = "a", W.msg_position(a, tr, tq, odd, bits)
                if style == "parity_runs":
                    if rw.random() < 0.25:
                        odd = not odd
                elif rw.random() < 0.85:
                    odd = not odd
            elif r < 0.70:
                kind, hexm = "a", W.msg_velocity(a, tr, tq, bits)
            elif r < 0.76:
                kind, hexm = "a", W.msg_ident(a, bits)
            elif r < 0.84:
                k = rw.choice([28, 29, 31, 31])
                v = ver if ver is not None else rw.choice([0, 1, 2, 3, 5, 7])
                if rw.random() < 0.1:
                    v = rw.choice([0, 1, 2])
                kind, hexm = "a", W.msg_status(a, k, bits, v)
            else:
                kind, hexm = "c", W.msg_commb(a, tr, tq, bits)
            lost = rf.random() < p_loss
            in_gap = any(g0 <= tq < g1 for g0, g1 in gaps)
            is_pos = kind == "a" and 5 <= (int(hexm[8:10], 16) >> 3) <= 22 and (int(hexm[8:10], 16) >> 3) != 19
            if pos_out is not None and is_pos and pos_out[0] <= tq < pos_out[1]:
                a.setdefault("n_posout", 0)
                a["n_posout"] += 1
            elif par_out is not None and is_pos and par_out[0] <= tq < par_out[1] and ((int(hexm[13], 16) >> 2) & 1) == par_out[2]:
                a.setdefault("n_parout", 0)
                a["n_parout"] += 1
            elif in_gap:
                a.setdefault("n_gap", 0)
                a["n_gap"] += 1
            elif lost:
                a.setdefault("n_lost", 0)
                a["n_lost"] += 1
            else:
                msgs.append((tq, seq, kind, hexm, a["icao"])); seq += 1; n += 1
                if rf.random() < p_dup:
                    msgs.append((tq, seq, kind, hexm, a["icao"])); seq += 1; n += 1
                    a.setdefault("n_dup", 0)
                    a["n_dup"] += 1
            if style == "fast":
                t += rw.choice([0.2, 0.4, 0.5, 0.5, 0.6, 1.0])
            elif style == "medium":
                t += rw.uniform(0.3, 4.0)
            elif style == "sparse":
                t += rw.choice([2, 5, 8, 9.8, 10.2, 15, 40, 70])
            elif style == "outage":
                t += rw.uniform(3.0, 9.0)
            elif style == "steady":
                t += rw.uniform(1.5, 4.5)
            else:
                t += rw.uniform(0.3, 3.0)
    # noisy identities and Comm-B replies for unknown addresses
    n_noisy = rw.choice([0, 0, 1, 2, 3])
    noisy = []
    for _ in range(n_noisy):
        while True:
            addr = "%06X" % rw.randrange(1, 1 << 24)
            if addr not in used:
                used.add(addr)
                break
        noisy.append(addr)
        k = rw.choice([5, 20, 60])
        for _ in range(k):
            tq = _quant(rw.uniform(0, T), tmode)
            f = _noisy_frame(rw, addr)
            msgs.append((tq, seq, "a" if R.hex_df(f) in (17, 18) else "c", f, addr)); seq += 1
    msgs.sort(key=lambda m: (m[0], m[1]))
    return {"base": base, "tmode": tmode, "receiver": rcv, "aircraft": acs, "noisy": noisy, "msgs": msgs}


def generate(run_seed, tier):
    rw = substream(run_seed, "world")
    rf = substream(run_seed, "faults")
    rb = substream(run_seed, "batch")
    long_run = tier != "quick" and rw.random() < 0.3
    T = rw.choice([60, 120, 200, 300] + ([600, 900] if long_run else []))
    outage = rw.random() < 0.08   # long sparse run with a long position-only outage
    if outage:
        T = 1800
    soak = tier != "quick" and not outage and rw.random() < 0.02   # hours of steady traffic, thousands of messages
    steady = not outage and not soak and rw.random() < 0.04       # half an hour of continuous tracking
    if soak:
        T = rw.choice([3600, 7200])
        wd = gen_world(rw, rf, T, 12000, n_clean=rw.choice([1, 2]), steady=True)
    elif steady:
        T = 1800
        wd = gen_world(rw, rf, T, 1500, n_clean=1, steady=True)
    else:
        wd = gen_world(rw, rf, T, 1500 if tier != "quick" else 700, outage=outage, n_clean=rw.choice([1, 1, 2]) if outage else None)
    base, tmode, rcv, acs, noisy, msgs = wd["base"], wd["tmode"], wd["receiver"], wd["aircraft"], wd["noisy"], wd["msgs"]
    # batching into calls
    bstyle = rb.choice(["single", "single", "small", "small", "large", "all", "mixed"])
    calls = []
    i = 0
    prev_now = None
    while i < len(msgs):
        if bstyle == "single":
            k = 1
        elif bstyle == "small":
            k = rb.randint(1, 5)
        elif bstyle == "large":
            k = rb.randint(10, 100)
        elif bstyle == "all":
            k = len(msgs)
        else:
            k = rb.choice([1, 1, 2, 3, 8, 30])
        chunk = msgs[i:i + k]
        i += k
        last = chunk[-1][0]
        d = rb.choice([0, 0, 0, 0.001, 0.01, 0.5, 2.0])
        if rb.random() < 0.02:
            d = rb.choice([30, 58, 61, 80])  # stalled decoder: batch processed late
        now = last + d
        if prev_now is not None and now < prev_now:
            now = prev_now
        prev_now = now
        calls.append({"a": [[base + m[0], m[3]] for m in chunk if m[2] == "a"],
                      "c": [[base + m[0], m[3]] for m in chunk if m[2] == "c"], "now": base + now})
    # boundary ticks: for every silence of an address longer than 58 s (and
    # after its last message) evaluate the table at last_heard + delta
    heard = {}
    for m in msgs:
        heard.setdefault(m[4], []).append(m[0])
    ticks = []
    for addr, ts in sorted(heard.items()):
        ts = sorted(set(ts))
        for j, L in enumerate(ts):
            nxt = ts[j + 1] if j + 1 < len(ts) else None
            if nxt is None or nxt - L > 58:
                for dlt in BOUNDARY:
                    if nxt is None or L + dlt < nxt:
                        if rb.random() < 0.7:
                            ticks.append(L + dlt)
    for tk in ticks:
        calls.append({"a": [], "c": [], "now": base + tk, "tick": True})
    # forward clock jumps
    if rb.random() < 0.2 and msgs:
        calls.append({"a": [], "c": [], "now": base + msgs[-1][0] + rb.choice([3600, 86400, 1e6]), "tick": True})
    calls.sort(key=lambda c: c["now"])  # stable: keeps batch order, interleaves ticks
    if tmode == "int" and base == int(base) and rb.random() < 0.5:
        for c in calls:
            c["a"] = [[int(t), m] for t, m in c["a"]]
            c["c"] = [[int(t), m] for t, m in c["c"]]
    return {"rig": NAME, "prop": PROP, "base": base, "tmode": tmode, "receiver": rcv,
            "case": rw.choice(["lower", "lower", "mixed"]),
            "aircraft": [{k: v for k, v in a.items()} for a in acs], "noisy": noisy,
            "bstyle": bstyle, "calls": calls}


# ---------------------------------------------------------------------------
# reference model + execution

class TableModel(object):
    """last_heard per address; grey zone (59, 61] adopted from the
    implementation."""

    def __init__(self):
        self.seen = {}      # addr -> last_heard
        self.commb = set()  # addr with a Comm-B reply while listed
        self.adsb_ever = set()

    def feed(self, call):
        for t, m in call["a"]:
            a = R.frame_address(m)
            self.adsb_ever.add(a)
            if a not in self.seen or t > self.seen[a]:
                self.seen[a] = t
        for t, m in call["c"]:
            a = R.frame_address(m)
            if a in self.seen:
                if t > self.seen[a]:
                    self.seen[a] = t
                self.commb.add(a)

    def judge(self, keys_upper, now):
        """keys_upper: set of upper-cased table keys.  Returns list of
        (clause, detail) and the labels for this call."""
        out = []
        labels = []
        for a in sorted(self.seen):
            age = now - self.seen[a]
            if age <= 59:
                if a not in keys_upper:
                    out.append(("C17.b", "aircraft %s heard %.3f s before tnow is not listed" % (a, age)))
            elif age > 61:
                if a in keys_upper:
                    out.append(("C17.c", "aircraft %s silent for %.3f s is still listed" % (a, age)))
                del self.seen[a]
                self.commb.discard(a)
                labels.append("evict")
            else:
                labels.append("grey")
                if a not in keys_upper:
                    del self.seen[a]
                    self.commb.discard(a)
        for k in sorted(keys_upper):
            if k not in self.seen:
                if k in self.adsb_ever:
                    # already reported by C17.c above (stale) - nothing more to say
                    if not any(c == "C17.c" and k in d for c, d in out):
                        out.append(("C17.c", "aircraft %s is listed but was evicted by the model (silent > 61 s)" % k))
                else:
                    out.append(("C17.d", "table key %s was never heard in a DF17/18 message" % k))
        return out, labels


def _norm_table(acs):
    out = {}
    for k, rec in acs.items():
        r = {}
        for f, v in rec.items():
            if f in (0, 1):
                continue
            if f == "icao" and isinstance(v, str):
                v = v.upper()
            if isinstance(v, float) and v != v:
                v = "nan"
            r[str(f)] = v
        out[str(k).upper()] = r
    return out


def execute(sc, keep_log=False):
    m = _setup()
    dec = m["dec"]
    probe = m["probe"]
    for k in probe:
        probe[k] = 0
    stats = Stats()
    log = EventLog(keep=keep_log)
    base = sc["base"]
    trajs = {a["icao"]: W.Traj(a["traj"]) for a in sc["aircraft"]}
    rcv = sc["receiver"]
    twins = [dec.Decode(latlon=rcv), dec.Decode(latlon=rcv)]
    models = [TableModel(), TableModel()]
    violations = []
    checked = {}
    labels_run = []
    n_calls = 0
    nontrivial = False
    stats.c["probe.receiver_none"] += 1 if rcv is None else 0
    for a in sc["aircraft"]:
        f = a.get("faults", {})
        stats.c["fault.rf_loss"] += a.get("n_lost", 0)
        stats.c["fault.duplicate"] += a.get("n_dup", 0)
        stats.c["fault.silence_gap_msgs"] += a.get("n_gap", 0)
        stats.c["fault.position_only_outage_msgs"] += a.get("n_posout", 0)
        stats.c["fault.one_parity_outage_msgs"] += a.get("n_parout", 0)
        po_ = (a.get("faults") or {}).get("pos_outage")
        if po_ and 260 <= po_[1] - po_[0] <= 900 and any(l[3] == 1 for l in a["traj"]["legs"]):
            stats.c["probe.position_outage_270_900s_then_surface"] += 1
        if (a.get("faults") or {}).get("style") == "steady":
            stats.c["probe.half_hour_continuous_track"] += 1
        if a.get("n_lost") or a.get("n_dup") or a.get("n_gap"):
            nontrivial = True
        stats.c["probe.start_" + a.get("start_kind", "?")] += 1
    prev_keys = set()
    own_vals = {}
    listed_since = {}
    outage_seen = set()
    outages = {}
    for a in sc["aircraft"]:
        po = (a.get("faults") or {}).get("pos_outage")
        if po and po[1] - po[0] >= 1100:
            outages[a["icao"]] = po
    for ci, call in enumerate(sc["calls"]):
        n_calls += 1
        now = call["now"]
        if call.get("tick"):
            stats.c["fault.clock_tick_boundary"] += 1
        ats = [t for t, _ in call["a"]]
        cts = [t for t, _ in call["c"]]
        allstamps = ats + cts
        if allstamps and now - max(allstamps) >= 30:
            stats.c["fault.stalled_decoder_late_batch"] += 1
        tables = []
        for ti in (0, 1):
            mode = "upper" if ti == 0 else sc["case"]
            am = [W.case_render(x, mode) for _, x in call["a"]]
            cm = [W.case_render(x, mode) for _, x in call["c"]]
            try:
                twins[ti].process_raw(list(ats), am, list(cts), cm, now)
            except Exception as ex:  # noqa
                violations.append({"clause": "C17.a", "call": ci,
                                   "detail": "process_raw raised %s: %s on call %d (%s-case twin)" % (type(ex).__name__, ex, ci, mode)})
                break
            tables.append(twins[ti].get_aircraft())
        if violations:
            break
        keysets = [set(str(k).upper() for k in t.keys()) for t in tables]
        for ku in keysets[0]:
            if ku not in listed_since:
                listed_since[ku] = now
        for ku in list(listed_since):
            if ku not in keysets[0]:
                del listed_since[ku]
        call_labels = []
        for ti in (0, 1):
            models[ti].feed(call)
            vs, labels = models[ti].judge(keysets[ti], now)
            if ti == 0:
                call_labels = labels
            for clause, detail in vs:
                violations.append({"clause": clause, "call": ci,
                                   "detail": "call %d tnow=%r (%s twin): %s" % (ci, now, "upper" if ti == 0 else sc["case"], detail)})
            # duplicated keys differing only by case
            if len(keysets[ti]) != len(tables[ti]):
                violations.append({"clause": "C17.e", "call": ci, "detail": "call %d: table holds keys that differ only by case: %r" % (
                    ci, sorted(map(str, tables[ti].keys())))})
        if violations:
            break
        # C17.d gating of Comm-B derived fields
        for ti in (0, 1):
            for k, rec in tables[ti].items():
                ku = str(k).upper()
                if ku not in models[ti].commb:
                    setf = [f for f in COMMB_FIELDS if rec.get(f) is not None]
                    if setf:
                        violations.append({"clause": "C17.d", "call": ci,
                                           "detail": "call %d: %s carries Comm-B fields %r without a Comm-B reply while listed" % (ci, ku, setf)})
        # C17.d provenance: a Comm-B derived value in aircraft X's record must be
        # what one of X's own replies decodes to (values of another aircraft's
        # reply, or of an earlier message through a stale local, are "attached" to
        # an aircraft they do not belong to)
        pm = m["pms"]
        for _t, x in call["c"]:
            adr = R.frame_address(x)
            if adr not in own_vals:
                own_vals[adr] = dict((f, set()) for f, _fn in PROVENANCE)
            for f, fn in PROVENANCE:
                try:
                    own_vals[adr][f].add(getattr(pm.commb, fn)(x))
                except Exception:
                    pass
        for k, rec in tables[0].items():
            ku = str(k).upper()
            for f, _fn in PROVENANCE:
                v = rec.get(f)
                if v is not None and v not in own_vals.get(ku, {}).get(f, ()):
                    violations.append({"clause": "C17.d", "call": ci,
                                       "detail": "call %d: %s carries %s=%r which none of its own Comm-B replies decodes to" % (ci, ku, f, v)})
                    break
        # C17.e twins agree
        na, nb = _norm_table(tables[0]), _norm_table(tables[1])
        if na != nb:
            diff = []
            for k in sorted(set(na) | set(nb)):
                if na.get(k) != nb.get(k):
                    if k not in na or k not in nb:
                        diff.append("%s only in %s twin" % (k, "upper" if k in na else sc["case"]))
                    else:
                        fs = [f for f in set(na[k]) | set(nb[k]) if na[k].get(f) != nb[k].get(f)]
                        diff.append("%s fields %r differ (%r vs %r)" % (k, sorted(fs)[:4], [na[k].get(f) for f in sorted(fs)[:4]], [nb[k].get(f) for f in sorted(fs)[:4]]))
                    break
            violations.append({"clause": "C17.e", "call": ci, "detail": "call %d: upper- and %s-case twins disagree: %s" % (ci, sc["case"], "; ".join(diff))})
        # C17.f accuracy for clean aircraft
        for k, rec in tables[0].items():
            ku = str(k).upper()
            tr = trajs.get(ku)
            if tr is None:
                continue
            lat, lon, tpos = rec.get("lat"), rec.get("lon"), rec.get("tpos")
            if lat is None or tpos is None:
                continue
            sig = (tpos, lat, lon)
            if checked.get(ku) == sig:
                continue
            checked[ku] = sig
            tl, tn = tr.pos(tpos - base)
            stats.c["position_updates_checked"] += 1
            po = outages.get(ku)
            if po and tpos - base >= po[1] and listed_since.get(ku, 1e99) <= base + po[0] and ku not in outage_seen:
                outage_seen.add(ku)
                stats.c["probe.position_update_after_outage_over_1100s_while_listed"] += 1
            elat = abs(lat - tl)
            elon = W.lon_diff(lon, tn)
            if not (elat <= 0.001 and elon <= 0.001):
                gs, hdg, ground, alt, vr = tr.state(tpos - base)
                violations.append({"clause": "C17.f", "call": ci,
                                   "detail": "call %d: %s stored (%.5f, %.5f) at tpos=%r but true position is (%.5f, %.5f) [%s, err %.5f/%.5f deg, receiver %r]" % (
                                       ci, ku, lat, lon, tpos, tl, tn, "surface" if ground else "airborne", elat, elon, sc["receiver"])})
            if abs(tl) < 0.2:
                stats.c["probe.update_near_equator"] += 1
            if abs(abs(tn) - 180) < 0.2:
                stats.c["probe.update_near_antimeridian"] += 1
        if violations:
            break
        # labels
        newk = keysets[0] - prev_keys
        gone = prev_keys - keysets[0]
        if newk:
            call_labels.append("new")
        if gone:
            call_labels.append("gone")
        if call["c"]:
            hit = any(R.frame_address(x) in keysets[0] for _, x in call["c"])
            call_labels.append("commb-hit" if hit else "commb-miss")
        if not call["a"] and not call["c"]:
            call_labels.append("tick")
        prev_keys = keysets[0]
        lab = ",".join(sorted(set(call_labels))) or "upd"
        labels_run.append(lab)
        log.add(ci, now, len(call["a"]), len(call["c"]), sorted(keysets[0]), lab, crc32(repr(sorted(na.items()))))
        stats.states.add(hash_state(tables[0]))
    stats.c["evaluations"] += n_calls
    stats.c["seam_steps"] += n_calls * 2
    stats.c["messages"] += sum(len(c["a"]) + len(c["c"]) for c in sc["calls"][:n_calls])
    # position-path probes are counted for both twins; halve
    stats.c["probe.global_pair_update"] += probe["pair_ok"] // 2
    stats.c["probe.pair_none_nl_straddle"] += probe["pair_none"] // 2
    stats.c["probe.pair_raise_swallowed"] += probe["pair_raise"] // 2
    stats.c["probe.reference_update"] += probe["ref"] // 2
    for lab in labels_run:
        for x in lab.split(","):
            stats.c["label." + x] += 1
    if probe["ref"] or probe["pair_ok"] or any("evict" in l or "grey" in l for l in labels_run):
        nontrivial = True

    # collapse runs of identical labels so the signature is the abstract history
    comp = []
    for l in labels_run:
        if not comp or comp[-1] != l:
            comp.append(l)
    stats.sig((sc.get("bstyle"), sc.get("tmode"), tuple(comp[:200]), probe["pair_ok"] > 0, probe["pair_none"] > 0,
               probe["pair_raise"] > 0), nontrivial)
    for v in violations:
        stats.c["violations." + v["clause"]] += 1
        v["focus"] = {"call": v.get("call")}
    if not stats.samples:
        stats.samples.append({"rig": NAME, "aircraft": [{"icao": a["icao"], "start": [a["traj"]["lat"], a["traj"]["lon"]],
                                                         "legs": a["traj"]["legs"][:3], "faults": a.get("faults")} for a in sc["aircraft"][:2]],
                              "receiver": sc["receiver"], "base": base, "tmode": sc["tmode"], "case": sc["case"],
                              "calls": len(sc["calls"]), "first_calls": sc["calls"][:2], "labels": comp[:20]})
    sim_us = 0
    stamps = [t for c in sc["calls"][:n_calls] for t, _ in c["a"] + c["c"]]
    if stamps:
        # simulated time = span of the message stamps (clock jumps not counted)
        sim_us = int((max(stamps) - min(stamps)) * 1e6)
    return {"violations": violations, "stats": stats, "digest": log.digest(),
            "log": log.events if keep_log else None, "evals": n_calls, "sim_us": sim_us}


def hash_state(table):
    from ..util import h64
    items = []
    for k, rec in table.items():
        items.append((str(k).upper(), rec.get("lat") is not None, rec.get("ver"), "tpos" in rec, 0 in rec, 1 in rec,
                      "nic_s" in rec, "nic_a" in rec, rec.get("tas") is not None, rec.get("ias") is not None))
    return h64(sorted(items))


# ---------------------------------------------------------------------------
def focus(sc, violation):
    """Cut the history after the failing call."""
    c = dict(sc)
    k = violation["focus"]["call"]
    if k is not None:
        c["calls"] = sc["calls"][:k + 1]
    return c


def shrink(sc, fails, budget_n=400):
    b = Budget(budget_n)
    sc = dict(sc)

    def t_calls(calls):
        c = dict(sc)
        c["calls"] = calls
        return bool(calls) and fails(c)

    sc["calls"] = ddmin_list(sc["calls"], t_calls, b, min_len=1)
    # flatten to messages: drop individual messages inside calls
    flat = []
    for ci, c in enumerate(sc["calls"]):
        for t, x in c["a"]:
            flat.append((ci, "a", t, x))
        for t, x in c["c"]:
            flat.append((ci, "c", t, x))

    def rebuild(fl):
        calls = []
        for ci, c in enumerate(sc["calls"]):
            calls.append({"a": [[t, x] for (i, k, t, x) in fl if i == ci and k == "a"],
                          "c": [[t, x] for (i, k, t, x) in fl if i == ci and k == "c"], "now": c["now"]})
        return calls

    def t_flat(fl):
        c = dict(sc)
        c["calls"] = rebuild(fl)
        return fails(c)

    flat = ddmin_list(flat, t_flat, b)
    sc["calls"] = rebuild(flat)
    sc["calls"] = ddmin_list(sc["calls"], t_calls, b, min_len=1)
    # drop aircraft that no longer matter (their truth is only used by C17.f)
    present = set()
    for c in sc["calls"]:
        for _, x in c["a"] + c["c"]:
            present.add(R.frame_address(x))
    keep = [a for a in sc["aircraft"] if a["icao"] in present]
    c = dict(sc)
    c["aircraft"] = keep
    if b.take() and fails(c):
        sc = c
    if sc.get("case") != "lower" and b.take():
        c = dict(sc)
        c["case"] = "lower"
        if fails(c):
            sc = c
    return sc
