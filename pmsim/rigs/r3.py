"""R3 - the pipeline: NetSource.run || Decode.run || screen stub over SimPipes,
FakeTime and FakeZmq, scheduled by the kernel.

Serves C16 (forward exactly once and in order all the way into process_raw,
loop survival, bounded liveness) and C17 (never raises, staleness, gating,
case-invariance, progress; accuracy only for Skysense feeds, whose stamps are
the sender's).
"""
import pickle

from .. import wire
from .. import refenc as R
from .. import world as W
from ..fakes import FakeTime, FakeZmqModule, SimPipe, SimQueue, SimValue, EPOCH0
from ..kernel import Kernel
from ..util import substream, Stats
from ..shrink import ddmin_list, Budget
from . import r1b, r2

NAME = "r3"
PROP = "C16+C17"
SKY_BASE = 3600.0  # seconds of day at world time 0 for Skysense feeds

_mods = {}


def _setup():
    if _mods:
        return _mods
    m = r1b._setup()
    r2._setup()
    import pyModeS.streamer.decode as dec

    _mods.update(m)
    _mods["dec"] = dec
    _mods["dec_time"] = dec.time
    return _mods


def _filler_short(rng):
    df = rng.choice([11, 4, 5, 0])
    return ("%02X" % ((df << 3) | rng.randrange(8))) + "%012X" % rng.getrandbits(48)


def generate_for(run_seed, tier, prop):
    return generate(run_seed, tier)


def generate(run_seed, tier):
    rw = substream(run_seed, "world")
    rf_ = substream(run_seed, "faults")
    rc = substream(run_seed, "cuts")
    rs = substream(run_seed, "sched")
    fmt = rw.choice(["beast", "raw", "skysense", "skysense"])
    T = rw.choice([5, 20, 60, 150])
    budget = rw.choice([40, 120, 300]) if tier == "quick" else rw.choice([120, 300, 500])
    wd = r2.gen_world(rw, rf_, T, budget, base=(SKY_BASE if fmt == "skysense" else EPOCH0), tmode="float" if fmt != "skysense" else "ms",
                      n_clean=rw.choice([1, 2, 3]))
    msgs = wd["msgs"][:budget * 2]
    # wire frames in emission order, with filler short frames / other Beast types
    frames = []
    sends = []  # world time at which frame i is put on the wire
    p_fill = rw.choice([0.0, 0.1, 0.3])
    lat_mode = rf_.choice(["low", "low", "jitter", "burst"])
    hold_until = 0.0
    tprev = 0.0
    for (t, seq, kind, hx, addr) in msgs:
        if rw.random() < p_fill:
            fh = _filler_short(rw)
            if fmt == "beast":
                r = rw.random()
                if r < 0.5:
                    frames.append({"k": "2", "ts": "%012X" % rw.getrandbits(48), "sig": rw.randrange(256), "body": fh})
                elif r < 0.75:
                    frames.append({"k": "1", "ts": "%012X" % rw.getrandbits(48), "sig": rw.randrange(256), "body": "%04X" % rw.getrandbits(16)})
                else:
                    frames.append({"k": "4", "ts": "%012X" % rw.getrandbits(48), "sig": rw.randrange(256), "body": "%028X" % rw.getrandbits(112)})
            elif fmt == "raw":
                frames.append({"txt": fh if rw.random() < 0.5 else fh.lower(), "sep": rw.choice(["", "\n", "\r\n"])})
            else:
                sec = int(SKY_BASE + t)
                frames.append({"body": fh + "00" * 7, "ts": wire.skysense_ts(sec, int((SKY_BASE + t - sec) * 1e9)), "rs": "%06X" % rw.getrandbits(24)})
            sends.append(None)
        if fmt == "beast":
            frames.append({"k": "3", "ts": "%012X" % rw.getrandbits(48), "sig": rw.randrange(256), "body": hx})
        elif fmt == "raw":
            frames.append({"txt": hx if rw.random() < 0.6 else hx.lower(), "sep": rw.choice(["", "\n", "\r\n"])})
        else:
            tt = SKY_BASE + t
            sec = int(tt)
            nano = int(round((tt - sec) * 1e9))
            if nano >= 1000000000:
                sec, nano = sec + 1, 0
            frames.append({"body": hx, "ts": wire.skysense_ts(sec, nano), "rs": "%06X" % rw.getrandbits(24)})
        if lat_mode == "low":
            lat = 0.001
        elif lat_mode == "jitter":
            lat = rf_.choice([0.001, 0.01, 0.05, 0.3])
        else:
            if t >= hold_until and rf_.random() < 0.05:
                hold_until = t + rf_.choice([0.5, 2.0, 11.0, 30.0])
            lat = max(0.001, hold_until - t)
        s_at = max(t + lat, tprev)
        tprev = s_at
        sends.append(s_at)
    # fillers go out together with their successor
    for i in range(len(sends) - 1, -1, -1):
        if sends[i] is None:
            sends[i] = sends[i + 1] if i + 1 < len(sends) and sends[i + 1] is not None else tprev
    st = wire.serialise(fmt, frames)
    # TCP pieces: frames whose send times fall in one coalescing window travel
    # together; inside, seeded cuts
    deliveries = []
    i = 0
    n = len(frames)
    # end offset of every frame in the stream (including non-Mode-S ones)
    ends = []
    acc = 0
    for f in frames:
        acc += len(wire.serialise(fmt, [f], sentinel=False).data)
        ends.append(acc)
    coalesce = rc.choice([0.0, 0.002, 0.05, 1.0])
    cut_style = rc.choice(["none", "few", "dribble", "mid"])
    while i < n:
        j = i
        while j + 1 < n and sends[j + 1] - sends[i] <= coalesce:
            j += 1
        start = ends[i - 1] if i > 0 else 0
        end = ends[j]
        at = int(sends[j] * 1e6) + 1
        cuts = []
        if cut_style == "few" and end - start > 2 and rc.random() < 0.5:
            cuts = sorted(set(rc.randrange(start + 1, end) for _ in range(rc.randint(1, 3))))
        elif cut_style == "dribble" and rc.random() < 0.1:
            cuts = list(range(start + 1, end, rc.choice([1, 2, 5])))
        elif cut_style == "mid" and end - start > 10:
            cuts = [start + (end - start) // 2]
        for c in cuts:
            deliveries.append([at, c])
            at += rc.choice([0, 1, 100, 20000])
        deliveries.append([at, end])
        i = j + 1
    # keep delivery times non-decreasing
    tcur = 0
    for d in deliveries:
        tcur = max(tcur, d[0])
        d[0] = tcur
    L = len(st.data)
    deliveries.append([tcur + 1000, L])  # the sentinel frame start
    quantum = rs.choice([q for q in (1000, 10000, 100000, 1000000) if T * 1e6 / q <= 3000])
    stalls = {"decoder": [], "screen": [], "source": []}
    for name in stalls:
        for _ in range(rf_.choice([0, 0, 1, 2])):
            stalls[name].append([rf_.randrange(0, int(T * 1e6) + 1), rf_.choice([10000, 500000, 5_000_000, 30_000_000])])
    # pre-emption at a program point: the task is descheduled right at its nth
    # seam of a given kind (between two seams of one loop pass)
    op_stalls = []
    for _ in range(rf_.choice([0, 0, 1, 2, 3])):
        name = rf_.choice(["decoder", "decoder", "source"])
        op = rf_.choice(["poll:raw", "recv:raw", "time", "send:ac", "sleep"]) if name == "decoder" else rf_.choice(["recv", "time", "value", "send:raw"])
        op_stalls.append([name, op, rf_.choice([1, 2, 3, 5, 8, 13, 21, 34, 55, 89]), rf_.choice([2_000_000, 10_000_000, 30_000_000, 65_000_000])])
    tape = {}
    p_sw = rs.choice([0.0, 0.05, 0.2, 0.5])
    for k in range(6000):
        if rs.random() < p_sw:
            tape[str(k)] = rs.randrange(1, 4)
    return {"rig": NAME, "prop": PROP, "fmt": fmt, "frames": frames, "deliveries": deliveries,
            "zmq_ids": rf_.random() < 0.7, "raw_cap": rf_.choice([1, 2, 8, 64]), "ac_cap": rf_.choice([1, 2, 8]),
            "stalls": stalls, "op_stalls": op_stalls, "tape": tape, "cpu_us": rs.choice([0, 1, 50]), "quantum_us": quantum,
            "receiver": wd["receiver"], "aircraft": wd["aircraft"], "case": rw.choice(["lower", "mixed"]), "T": T,
            "disk": _gen_disk(rf_), "coalesce": rf_.random() < 0.5, "group": fmt}


def _gen_disk(rf_):
    """CSV dump regime: None (dump off, the default of modeslive), a healthy
    simulated disk, or a disk whose open() fails transiently (ENOSPC) for a few
    chosen calls."""
    r = rf_.random()
    if r < 0.65:
        return None
    if r < 0.75:
        return {"fail_opens": []}
    first = rf_.choice([0, 1, 2, 3, 5, 8, 13, 21])
    k = rf_.choice([1, 1, 2, 3])
    fails = sorted(set([first + i for i in range(k)] + ([first + rf_.randrange(2, 12)] if rf_.random() < 0.3 else [])))
    return {"fail_opens": fails}


# ---------------------------------------------------------------------------
class DecObserver(object):
    def __init__(self, sc, dec, stats):
        self.sc = sc
        self.stats = stats
        self.model = r2.TableModel()       # fed by calls that returned normally ("must be listed")
        self.model_hi = r2.TableModel()    # also fed by calls hit by an injected disk fault ("may be listed")
        self.fault_in_call = False
        self.faults_fired = 0
        self.failed = []                   # indices of calls that ended in an injected fault
        self.twin = dec.Decode(latlon=sc["receiver"])
        self.twin_model = None
        self.calls = []          # inputs of every process_raw invocation
        self.vio = []
        self.trajs = {a["icao"]: W.Traj(a["traj"]) for a in sc["aircraft"]}
        self.checked = {}
        self.last_table = None
        self.last_stamp = None
        self.premise_ok = True
        self.on_violation = None
        self.sent = []           # batches the source put on the raw pipe (set by the rig)
        self.bi = 0
        self.own_vals = {}
        from ..bootstrap import boot
        self.pms = boot()

    def add(self, clause, detail):
        if len(self.vio) < 4:
            self.vio.append({"clause": clause, "detail": detail})
        if self.on_violation is not None:
            self.on_violation()   # no point in simulating on: end the run

    def _align(self, call):
        """Map the content of one process_raw call onto the next batch(es) the
        source sent; None if it is not exactly those."""
        A, C = call["a"], call["c"]
        units = []
        na = nc = 0
        j = self.bi
        while j < len(self.sent) and (na < len(A) or nc < len(C) or not units):
            b = self.sent[j]
            ua = [[t, x] for t, x in zip(b["adsb_ts"], b["adsb_msg"])]
            uc = [[t, x] for t, x in zip(b["commb_ts"], b["commb_msg"])]
            if ua != [list(x) for x in A[na:na + len(ua)]] or uc != [list(x) for x in C[nc:nc + len(uc)]]:
                return None
            units.append({"a": ua, "c": uc})
            na += len(ua)
            nc += len(uc)
            j += 1
        if units and na == len(A) and nc == len(C):
            self.bi = j
            return units
        return None

    def on_exit(self, inst, call, raised, t_entry=None):
        ci = len(self.calls)
        self.calls.append(call)
        pm = self.pms
        for _t, x in call["c"]:
            adr = R.frame_address(x.upper())
            if adr not in self.own_vals:
                self.own_vals[adr] = dict((f, set()) for f, _fn in r2.PROVENANCE)
            for f, fn in r2.PROVENANCE:
                try:
                    self.own_vals[adr][f].add(getattr(pm.commb, fn)(x))
                except Exception:
                    pass
        injected, self.fault_in_call = self.fault_in_call, False
        if raised is not None:
            if injected and isinstance(raised, OSError) and "pmsim injected" in str(raised):
                # narrow relaxation: a call may fail when the disk does; what it
                # already applied to the table may stay
                self.model_hi.feed(call)
                self.failed.append(ci)
                return
            self.add("C17.a", "process_raw raised %s: %s on batch %d" % (type(raised).__name__, raised, ci))
            return
        # "now" for the staleness clauses is the real (simulated) time: the
        # clock reading the call used, or the time the call was entered if that is
        # later (a loop that hands process_raw a stale reading is judged by the
        # true time)
        now = max(inst.t, t_entry) if t_entry is not None else inst.t
        if t_entry is not None and t_entry - inst.t > 0.5:
            self.stats.c["probe.stale_clock_reading_over_0.5s"] += 1
        # premise of the statement, checked on the ground truth (what the source
        # sent): non-decreasing stamps, tnow >= stamps
        units = None
        if not self.faults_fired:
            units = self._align(call)
            if units is None:
                self.add("C17.g", "batch %d: process_raw was handed %d+%d messages that are not the next batch(es) the source sent (reordered, repeated or dropped)" % (
                    ci, len(call["a"]), len(call["c"])))
                return
        if units is None:
            units = [call]   # after an injected fault the loop legitimately re-processes older batches
        for u in units:
            stamps = [t for t, _ in u["a"] + u["c"]]
            for lst in (u["a"], u["c"]):
                ts = [t for t, _ in lst]
                if any(b < a for a, b in zip(ts, ts[1:])):
                    self.premise_ok = False
            if stamps and max(stamps) > now + 1e-9:
                self.premise_ok = False
            if stamps and min(stamps) < (self.last_stamp if self.last_stamp is not None else min(stamps)) - 1e-9:
                # the retry after an injected fault re-feeds older batches: from
                # then on process_raw's premise (non-decreasing stamps) is gone and
                # the staleness clauses say nothing; C17.a and C17.g stay on
                self.premise_ok = False
            if stamps:
                self.last_stamp = max(stamps) if self.last_stamp is None else max(self.last_stamp, max(stamps))
        table = inst.get_aircraft()
        keys = set(str(k).upper() for k in table)
        if not self.premise_ok:
            self.stats.c["premise_false_runs"] += 1
            return
        if len(units) > 1:
            self.stats.c["probe.call_covering_several_sent_batches"] += 1
        for u in units:
            # delivery-unit granularity: a reply counts only if its aircraft was
            # heard in ADS-B in an earlier unit or in the same one
            self.model.feed(u)
            self.model_hi.feed(u)
        vs, labels = self.model.judge(keys, now)
        vs_hi, _ = self.model_hi.judge(keys, now)
        for clause, detail in vs:
            if clause == "C17.b" or not self.faults_fired:
                self.add(clause, "batch %d tnow=%r: %s" % (ci, now, detail))
        if self.faults_fired:
            for clause, detail in vs_hi:
                if clause != "C17.b":
                    self.add(clause, "batch %d tnow=%r: %s" % (ci, now, detail))
        for k, rec in table.items():
            ku = str(k).upper()
            if ku not in self.model_hi.commb:
                setf = [f for f in r2.COMMB_FIELDS if rec.get(f) is not None]
                if setf:
                    self.add("C17.d", "batch %d: %s carries Comm-B fields %r without a Comm-B reply while listed" % (ci, ku, setf))
        # provenance of Comm-B derived values (same clause as in R2); the replies
        # themselves were recorded at the top of on_exit for *every* attempted call,
        # because a call that failed on an injected disk fault has already applied
        # its replies to the table
        for k, rec in table.items():
            ku = str(k).upper()
            for f, _fn in r2.PROVENANCE:
                v = rec.get(f)
                if v is not None and v not in self.own_vals.get(ku, {}).get(f, ()):
                    self.add("C17.d", "batch %d: %s carries %s=%r which none of its own Comm-B replies decodes to" % (ci, ku, f, v))
                    break
        if self.faults_fired:
            # the pipeline table may have absorbed parts of failed calls the twin
            # never saw: case comparison is only meaningful on fault-free prefixes
            for lab in labels:
                self.stats.c["label." + lab] += 1
            self._accuracy(table, ci)
            return
        # twin fed the other letter case, same clock reading
        mode = self.sc["case"]
        try:
            self.twin.process_raw([t for t, _ in call["a"]], [W.case_render(x.upper(), mode) for _, x in call["a"]],
                                  [t for t, _ in call["c"]], [W.case_render(x.upper(), mode) for _, x in call["c"]], now)
        except Exception as ex:  # noqa
            self.add("C17.a", "process_raw raised %s: %s on batch %d (%s-case twin)" % (type(ex).__name__, ex, ci, mode))
            return
        na, nb = r2._norm_table(table), r2._norm_table(self.twin.get_aircraft())
        if na != nb:
            self.add("C17.e", "batch %d: pipeline table and %s-case twin disagree on %r" % (
                ci, mode, sorted(k for k in set(na) | set(nb) if na.get(k) != nb.get(k))[:3]))
        self._accuracy(table, ci)
        for lab in labels:
            self.stats.c["label." + lab] += 1

    def _accuracy(self, table, ci):
        if self.sc["fmt"] == "skysense":
            for k, rec in table.items():
                ku = str(k).upper()
                tr = self.trajs.get(ku)
                if tr is None or rec.get("lat") is None or rec.get("tpos") is None:
                    continue
                sig = (rec["tpos"], rec["lat"], rec["lon"])
                if self.checked.get(ku) == sig:
                    continue
                self.checked[ku] = sig
                tl, tn = tr.pos(rec["tpos"] - SKY_BASE)
                self.stats.c["position_updates_checked"] += 1
                if not (abs(rec["lat"] - tl) <= 0.001 and W.lon_diff(rec["lon"], tn) <= 0.001):
                    self.add("C17.f", "batch %d: %s stored (%.5f, %.5f) at tpos=%r but true position is (%.5f, %.5f)" % (
                        ci, ku, rec["lat"], rec["lon"], rec["tpos"], tl, tn))


def execute(sc, keep_log=False):
    m = _setup()
    tc, src, dec = m["tc"], m["src"], m["dec"]
    st = wire.serialise(sc["fmt"], sc["frames"])
    data = st.data
    stats = Stats()
    dl = [d for d in sc["deliveries"] if d[1] <= len(data)]
    if not dl or dl[-1][1] != len(data):
        dl = dl + [[(dl[-1][0] if dl else 0) + 1000, len(data)]]
    npieces = len(dl)
    T_us = max(dl[-1][0], int(sc.get("T", 1) * 1e6))
    q = max(1, sc.get("quantum_us", 1000))
    extra_us = sum(d for _, _, _, d in sc.get("op_stalls", [])) + sum(d for lst in sc.get("stalls", {}).values() for _, d in lst)
    cap = 20000 + 40 * npieces + 30 * len(sc["frames"]) + int(12 * (T_us + 40_000_000 + extra_us) / q)
    epoch0 = 0.0 if sc["fmt"] == "skysense" else EPOCH0
    k = Kernel(tape=sc.get("tape"), step_cap=cap, t_end_us=None, cpu_us=sc.get("cpu_us", 0),
               sleep_quantum_us=q, epoch0=epoch0, keep_log=keep_log)
    if sc["fmt"] == "skysense":
        # the receiver clock reads seconds of day, like the Skysense stamps
        k.now_us = int(SKY_BASE * 1e6)
        dl = [[d[0] + k.now_us, d[1]] for d in dl]
    c16 = r1b.Oracle(st)
    net = r1b.Net(k, sc.get("zmq_ids", True), c16)
    net.coalesce = bool(sc.get("coalesce", False))
    fz = FakeZmqModule(k, net)
    ft = FakeTime(k)
    tc.zmq = fz
    tc.time = ft
    dec.time = ft
    raw_pipe = SimPipe(k, "raw", sc.get("raw_cap", 4))
    ac_pipe = SimPipe(k, "ac", sc.get("ac_cap", 2))
    exq = SimQueue(k, "exc")
    stop = SimValue(k, False)
    sent_batches = []
    raw_pipe.tap = lambda blob: sent_batches.append(pickle.loads(blob))
    obs = DecObserver(sc, dec, stats)
    obs.sent = sent_batches
    obs.on_violation = lambda: k._begin_stop("violation")
    c16.on_violation = lambda: k._begin_stop("violation")

    class ObsSource(src.NetSource):
        def handle_messages(self_, messages):
            c16.on_handed(messages, net)
            super(ObsSource, self_).handle_messages(messages)
            c16.on_handled_return()

    class ObsDecode(dec.Decode):
        def process_raw(self_, adsb_ts, adsb_msg, commb_ts, commb_msg, tnow=None):
            call = {"a": [[t, x] for t, x in zip(adsb_ts, adsb_msg)], "c": [[t, x] for t, x in zip(commb_ts, commb_msg)]}
            raised = None
            t_entry = k.epoch0 + k.now_us / 1e6
            try:
                return super(ObsDecode, self_).process_raw(adsb_ts, adsb_msg, commb_ts, commb_msg, tnow)
            except Exception as ex:
                raised = ex
                raise
            finally:
                if not k.stopping:
                    obs.on_exit(self_, call, raised, t_entry)

    source = ObsSource("sim", 30005, sc["fmt"])
    disk = sc.get("disk")
    dumped = {"rows": 0, "opens": 0}
    saved = {}
    if disk is not None:
        import types
        import datetime as _dt

        fail = set(disk.get("fail_opens", []))

        class MemFile(object):
            def __enter__(self_):
                return self_

            def __exit__(self_, *a):
                return False

            def write(self_, txt):
                dumped["rows"] += 1
                return len(txt)

        def fake_open(fn, mode="r", *a, **kw):
            k.seam_generic("open", fn)
            idx = dumped["opens"]
            dumped["opens"] += 1
            if idx in fail:
                obs.fault_in_call = True
                obs.faults_fired += 1
                k.count("fault.disk_open_ENOSPC")
                raise OSError(28, "No space left on device (pmsim injected)")
            return MemFile()

        class _FakeDatetime(object):
            @staticmethod
            def now():
                return _dt.datetime(2023, 11, 14, 0, 0, 0) + _dt.timedelta(microseconds=k.now_us)

        saved = {"os": dec.os, "datetime": dec.datetime}
        dec.os = types.SimpleNamespace(path=types.SimpleNamespace(isdir=lambda p: True))
        dec.datetime = types.SimpleNamespace(datetime=_FakeDatetime)
        dec.open = fake_open
    decoder = ObsDecode(latlon=sc["receiver"], dumpto="/simdisk" if disk is not None else None)
    t_src = k.spawn("source", lambda: source.run(raw_pipe, stop, exq))
    t_dec = k.spawn("decoder", lambda: decoder.run(raw_pipe, ac_pipe, exq))
    snaps = {"n": 0, "last": None, "at_calls": -1}

    def screen():
        while True:
            acs = ac_pipe.recv()
            snaps["n"] += 1
            snaps["last"] = acs
            snaps["at_calls"] = len(obs.calls)

    t_scr = k.spawn("screen", screen)
    prev = [0]
    state = {"fed": 0, "idle_polls": 0}
    for (at, bnd) in dl:
        def ev(bnd=bnd):
            piece = data[prev[0]:bnd]
            prev[0] = bnd
            state["fed"] += 1
            if piece:
                net.deliver(piece)
        k.at(at, ev, "deliver")
    tasks = {"decoder": t_dec, "screen": t_scr, "source": t_src}
    off0 = k.now_us
    for name, lst in sc.get("stalls", {}).items():
        for at, dur in lst:
            k.stall(tasks[name], at + off0, dur)

    for name, op, nth, dur in sc.get("op_stalls", []):
        k.stall_at_op(tasks[name], op, nth, dur)

    def quiescent():
        if k.spawned_pending():
            return False
        if not (state["fed"] == npieces and not net.inq and not raw_pipe.q and not ac_pipe.q):
            return False
        if not (t_src.wait is not None and t_src.wait[2] == "recv"):
            return False
        if len(obs.calls) < len(sent_batches):
            return False
        # the decoder has published a snapshot taken after the last batch and sleeps
        if not (t_dec.wait is not None and t_dec.wait[2] == "sleep"):
            return False
        if snaps["at_calls"] < len(obs.calls) or t_scr.wait is None:
            return False
        for t in (t_src, t_dec, t_scr):
            if k.now_us < t.frozen_until:
                return False
        return True

    k.quiescent = quiescent
    try:
        k.run()
    finally:
        tc.zmq = m["real_zmq"]
        tc.time = m["real_time"]
        dec.time = m["dec_time"]
        if saved:
            dec.os = saved["os"]
            dec.datetime = saved["datetime"]
            del dec.open
    vio = list(c16.violations) + list(obs.vio)
    for t, clause in ((t_src, "C16.e"), (t_dec, "C17.g")):
        if t.crash is not None:
            vio.append({"clause": clause, "detail": "%s.run let %s escape: %s" % (t.name, type(t.crash).__name__, str(t.crash)[:200])})
    if t_scr.crash is not None:
        raise RuntimeError("screen stub crashed: %r" % (t_scr.crash,))
    injected_only = bool(exq.items) and all(isinstance(it, tuple) and isinstance(it[0], OSError) and "pmsim injected" in str(it[0]) for it in exq.items)
    if exq.items and not injected_only:
        it = [x for x in exq.items if not (isinstance(x, tuple) and isinstance(x[0], OSError) and "pmsim injected" in str(x[0]))][0]
        txt = it[1] if isinstance(it, tuple) else str(it)
        who = "C17.g" if isinstance(it, tuple) else "C16.e"
        vio.append({"clause": who, "detail": "exception queue not empty: %s" % (txt.strip().splitlines()[-1][:200],)})
    # C16.d end-to-end: process_raw invocations == batches sent, once, in order
    seen = [{"adsb_ts": [t for t, _ in c["a"]], "adsb_msg": [x for _, x in c["a"]],
             "commb_ts": [t for t, _ in c["c"]], "commb_msg": [x for _, x in c["c"]]} for c in obs.calls]
    c16.batches = sent_batches
    faulty = obs.faults_fired > 0
    if faulty:
        # at-least-once under injected faults: drop failed attempts and repeats,
        # what remains must be the batches sent, in order
        ok_calls = [c for i, c in enumerate(seen) if i not in set(obs.failed)]
        dedup = []
        for c in ok_calls:
            if c not in dedup:
                dedup.append(c)
        seen = dedup
        stats.c["fault_runs.calls_failed"] += len(obs.failed)
    if not any(v["clause"].startswith("C17.a") or v["clause"] == "C17.g" for v in vio):
        if seen != sent_batches[:len(seen)]:
            vio.append({"clause": "C16.d", "detail": "process_raw invocations differ from the batches sent: call %d" % (
                next((i for i, (a, b) in enumerate(zip(seen, sent_batches)) if a != b), min(len(seen), len(sent_batches))),)})
    if not vio:
        if k.stop_reason == "quiescent":
            c16.check_forwarding(True)
            if len(c16.handed) < st.closed(len(data)):
                c16.vio("C16.c", "stream fully delivered and parsed: %d frames handed but %d complete" % (len(c16.handed), st.closed(len(data))))
            vio += list(c16.violations)
            if len(seen) != len(sent_batches):
                vio.append({"clause": "C17.g", "detail": "%d batches sent but %d processed at quiescence" % (len(sent_batches), len(seen))})
            final = r2._norm_table(decoder.get_aircraft())
            if snaps["last"] is None or r2._norm_table(snaps["last"]) != final:
                vio.append({"clause": "C17.g", "detail": "last snapshot received by the screen differs from the table at quiescence"})
        elif k.stop_reason in ("step_cap", "deadlock"):
            pend = "source waits on %r, decoder on %r, screen on %r" % tuple((t.wait[2] if t.wait else None) for t in (t_src, t_dec, t_scr))
            vio.append({"clause": "C16.f" if len(seen) >= len(sent_batches) and t_src.wait and t_src.wait[2] != "recv" else "C17.g",
                        "detail": "no quiescence: run ended by %s after %d seam steps (%d pieces, %d frames, %d/%d batches processed); %s" % (
                            k.stop_reason, k.steps, npieces, len(sc["frames"]), len(seen), len(sent_batches), pend)})
    for key, n in k.counters.items():
        stats.c[key] += n
    if net.zmq_ids:
        stats.c["fault.zmq_identity_frames_runs"] += 1
    stats.c["seam_steps"] += k.steps
    stats.c["evaluations"] += 1
    stats.c["context_switches"] += k.switches
    stats.c["pieces"] += npieces
    stats.c["batches_forwarded"] += len(sent_batches)
    stats.c["batches_processed"] += len(seen)
    stats.c["snapshots_to_screen"] += snaps["n"]
    stats.c["stop." + str(k.stop_reason)] += 1
    if any(len(b["adsb_msg"]) + len(b["commb_msg"]) >= 3 for b in sent_batches) and k.counters.get("fault.stall_decoder"):
        stats.c["probe.decoder_stalled_with_batches_queued"] += 1
    stats.c["feeds." + sc["fmt"]] += 1
    if disk is not None:
        stats.c["disk.runs_with_dump"] += 1
        stats.c["disk.rows_written"] += dumped["rows"]
    nontrivial = bool(k.counters) or k.switches > 0
    stats.sig((sc["fmt"], tuple(k.sched[:800])), nontrivial)
    for v in vio:
        stats.c["violations." + v["clause"]] += 1
        v["focus"] = {}
    if not stats.samples:
        stats.samples.append({"rig": NAME, "fmt": sc["fmt"], "n_frames": len(sc["frames"]), "pieces": npieces, "zmq_ids": net.zmq_ids,
                              "raw_cap": sc.get("raw_cap"), "ac_cap": sc.get("ac_cap"), "stalls": sc.get("stalls"),
                              "quantum_us": q, "tape_entries": len(sc.get("tape", {})), "sim_seconds": round((k.now_us - off0) / 1e6, 3),
                              "schedule_prefix": ["%s:%s" % (k.tasks[i].name, op) for i, op in k.sched[:30]]})
    return {"violations": vio, "stats": stats, "digest": k.log.digest(), "log": k.log.events if keep_log else None,
            "evals": 1, "sim_us": k.now_us - off0}


def focus(sc, violation):
    return dict(sc)


def shrink(sc, fails, budget_n=200):
    b = Budget(budget_n)
    sc = dict(sc)
    for key, val in (("tape", {}), ("stalls", {}), ("op_stalls", []), ("cpu_us", 0), ("raw_cap", 64), ("ac_cap", 8), ("zmq_ids", False), ("disk", None)):
        if sc.get(key) != val and b.take():
            c = dict(sc)
            c[key] = val
            if fails(c):
                sc = c
    # fewer frames from the tail
    lo = 1
    while len(sc["frames"]) > lo and b.take():
        n = max(lo, len(sc["frames"]) // 2)
        c = dict(sc)
        c["frames"] = sc["frames"][:n]
        L = len(wire.serialise(c["fmt"], c["frames"]).data)
        c["deliveries"] = [d for d in sc["deliveries"] if d[1] < L]
        if fails(c):
            sc = c
        else:
            lo = n + 1
            if lo >= len(sc["frames"]):
                break
            c = dict(sc)
            c["frames"] = sc["frames"][:-1]
            L = len(wire.serialise(c["fmt"], c["frames"]).data)
            c["deliveries"] = [d for d in sc["deliveries"] if d[1] < L]
            if b.take() and fails(c):
                sc = c
            else:
                break

    def t_del(dl):
        c = dict(sc)
        c["deliveries"] = dl
        return fails(c)

    sc["deliveries"] = ddmin_list(sc["deliveries"], t_del, b)
    return sc
