"""R1b - TCP client loop.

Real code: NetSource.run on its own thread: connect(), socket.recv(), dispatch
on datatype, the three framers, handle_messages() batching, raw_pipe_in.send().
Driven by a feeder (timed delivery events), the FakeZmq STREAM socket, a sink
task draining the pipe (with stalls -> back-pressure) and the choice tape.
"""
from .. import wire
from .. import refenc as R
from ..fakes import FakeTime, FakeZmqModule, SimPipe, SimQueue, SimValue, EPOCH0
from ..kernel import Kernel
from ..util import substream, Stats, h64
from ..shrink import ddmin_list, Budget

NAME = "r1b"
PROP = "C16"
ROUTING_ID = b"\x00\x6b\x8b\x45\x67"

_mods = {}


def _setup():
    if _mods:
        return _mods
    from ..bootstrap import boot

    boot()
    import pyModeS.extra.tcpclient as tc
    import pyModeS.streamer.source as src

    _mods["tc"] = tc
    _mods["src"] = src
    _mods["real_zmq"] = tc.zmq
    _mods["real_time"] = tc.time
    return _mods


class Net(object):
    """The simulated peer + what libzmq makes of the TCP stream."""

    def __init__(self, k, zmq_ids, oracle):
        self.k = k
        self.zmq_ids = zmq_ids
        self.inq = []
        self.consumed = 0     # TCP payload bytes already returned by recv()
        self.delivered = 0
        self.oracle = oracle
        self.id_mid_frame = 0
        self.coalesce = False

    def on_connect(self, sock):
        if self.zmq_ids:
            self.inq.append((ROUTING_ID, True))
            self.inq.append((b"", False))

    def deliver(self, piece):
        self.delivered += len(piece)
        if self.coalesce and self.inq and not self.inq[-1][1] and self.inq[-1][0] and len(self.inq[-1][0]) + len(piece) <= 8192:
            # the reader is behind: libzmq hands over what accumulated in the
            # kernel buffer as one message (its in-batch size is 8192 bytes)
            self.inq[-1] = (self.inq[-1][0] + piece, False)
            self.k.count("fault.tcp_coalesced_reads")
            return
        if self.zmq_ids:
            self.inq.append((ROUTING_ID, True))
        self.inq.append((piece, False))

    def on_recv_enter(self, sock):
        self.oracle.on_recv_enter(self)

    def on_recv_return(self, sock, frame, more):
        if not more:
            self.consumed += len(frame)


class Oracle(object):
    def __init__(self, st):
        self.st = st
        self.handed = []       # hex upper
        self.handed_ts = []
        self.violations = []
        self.batches = []      # as received by the sink
        self.exp_adsb = []     # (msg as handed, ts)
        self.exp_commb = []
        self.flush_marks = []  # (n_adsb_expected, n_commb_expected) at each handle_messages return
        self.on_violation = None

    def vio(self, clause, detail):
        if len(self.violations) < 4:
            self.violations.append({"clause": clause, "detail": detail})
        if self.on_violation is not None:
            self.on_violation()

    def on_handed(self, messages, net):
        exp = self.st.expect
        for item in messages:
            msg, ts = item[0], item[-1]
            self.handed.append(str(msg).upper())
            self.handed_ts.append(ts)
            if len(msg) >= 28:
                df = R.hex_df(msg)
                if df in (17, 18):
                    self.exp_adsb.append((msg, ts))
                elif df in (20, 21):
                    self.exp_commb.append((msg, ts))
        n = len(self.handed)
        if n > len(exp) or self.handed != exp[:n]:
            j = 0
            while j < n and j < len(exp) and self.handed[j] == exp[j]:
                j += 1
            self.vio("C16.a", "after %d TCP payload bytes handed[%d]=%s but frame[%d]=%s" % (
                net.consumed, j, self.handed[j] if j < n else None, j, exp[j] if j < len(exp) else None))
        elif n > self.st.done(net.consumed):
            self.vio("C16.b", "after %d TCP payload bytes %d frames handed but only %d completely received" % (
                net.consumed, n, self.st.done(net.consumed)))

    def on_recv_enter(self, net):
        # the previous read has been parsed completely before recv() is entered again
        need = self.st.closed(net.consumed)
        if len(self.handed) < need and not self.violations:
            self.vio("C16.c", "recv() re-entered after %d TCP payload bytes with %d frames handed but %d complete and followed by the next frame start" % (
                net.consumed, len(self.handed), need))

    def on_handled_return(self):
        self.flush_marks.append((len(self.exp_adsb), len(self.exp_commb)))

    def check_forwarding(self, final):
        """C16.d on what the sink received so far."""
        a_msg, a_ts, c_msg, c_ts = [], [], [], []
        for b in self.batches:
            if not (len(b["adsb_ts"]) == len(b["adsb_msg"]) and len(b["commb_ts"]) == len(b["commb_msg"])):
                self.vio("C16.d", "batch with misaligned ts/msg lists: %r" % ({k: len(v) for k, v in b.items()},))
                return
            a_msg += b["adsb_msg"]; a_ts += b["adsb_ts"]; c_msg += b["commb_msg"]; c_ts += b["commb_ts"]
        ea = [m for m, _ in self.exp_adsb]
        ec = [m for m, _ in self.exp_commb]
        if a_msg != ea[:len(a_msg)] or a_ts != [t for _, t in self.exp_adsb][:len(a_ts)]:
            self.vio("C16.d", "DF17/18 messages forwarded %r... are not a prefix of those handed %r..." % (a_msg[:3], ea[:3]))
        if c_msg != ec[:len(c_msg)] or c_ts != [t for _, t in self.exp_commb][:len(c_ts)]:
            self.vio("C16.d", "DF20/21 messages forwarded %r... are not a prefix of those handed %r..." % (c_msg[:3], ec[:3]))
        if final:
            if len(a_msg) < len(ea) - 1:
                self.vio("C16.d", "%d long DF17/18 messages handed but only %d forwarded (more than one withheld)" % (len(ea), len(a_msg)))
            # Comm-B is flushed together with ADS-B: everything handed before the
            # last flush must be out
            last = None
            for na, nc in self.flush_marks:
                if na >= 2 and na - (last[0] if last else 0) >= 0:
                    pass
            sent_c = len(c_msg)
            # number of commb that had been handed when the last ADS-B flush happened
            need_c = 0
            held = 0
            prev_a = 0
            for na, nc in self.flush_marks:
                held += na - prev_a
                prev_a = na
                if held >= 2:
                    need_c = nc
                    held = 0
            if sent_c < need_c:
                self.vio("C16.d", "%d DF20/21 messages were due with the last flush but only %d forwarded" % (need_c, sent_c))


# ---------------------------------------------------------------------------
def gen_forward_frames(rw, fmt, n, p_hot):
    """Like the R1a streams but with long DF17/18/20/21 over-represented so the
    forwarding clause has material."""
    frames = []
    for _ in range(n):
        if fmt == "beast":
            f = wire.gen_beast_frame(rw, p_hot)
            if f["k"] == "3" and rw.random() < 0.7:
                b = bytearray(bytes.fromhex(f["body"]))
                b[0] = (rw.choice([17, 17, 18, 20, 21]) << 3) | (b[0] & 7)
                f["body"] = bytes(b).hex().upper()
        elif fmt == "raw":
            f = wire.gen_raw_frame(rw, p_hot)
            if len(f["txt"]) == 28 and rw.random() < 0.7:
                first = "%02X" % ((rw.choice([17, 17, 18, 20, 21]) << 3) | rw.randrange(8))
                f["txt"] = (first if f["txt"][2:].isupper() or rw.random() < 0.5 else first.lower()) + f["txt"][2:]
        else:
            f = wire.gen_skysense_frame(rw, p_hot)
            if int(f["body"][:2], 16) >> 7 and rw.random() < 0.7:
                first = "%02X" % ((rw.choice([17, 17, 18, 20, 21]) << 3) | rw.randrange(8))
                f["body"] = first + f["body"][2:]
        frames.append(f)
    return frames


def generate(run_seed, tier):
    rw = substream(run_seed, "world")
    rc = substream(run_seed, "cuts")
    rs = substream(run_seed, "sched")
    rf_ = substream(run_seed, "faults")
    fmt = rw.choice(["beast", "beast", "raw", "skysense"])
    mix = None
    bulk = rw.random() < 0.12   # backlog regime: long stream, reads up to libzmq's 8192-byte batch
    if bulk:
        n = rw.choice([300, 700, 1500])
        if tier != "quick" and rw.random() < 0.04:
            n = rw.choice([6000, 20000])   # soak: count-dependent behaviour (every Nth frame, counters, growth)
        p_hot = rw.choice([0.0, 0.05])
        frames = gen_forward_frames(rw, fmt, n, p_hot)
        mix = rw.choice(["any", "any", "commb_heavy", "adsb_heavy", "quiet_heavy"])
        if mix == "quiet_heavy":
            # a long stretch in which (almost) nothing is forwarded: Mode-A/C and
            # status records (Beast) or short frames, with the odd long frame
            # pending in the network source the whole time
            n = max(n, rw.choice([1500, 3000]))
            sub = rw.choice(["modeac", "short"]) if fmt == "beast" else "short"
            if sub == "short":
                n = rw.choice([2600, 4000])
            frames = []
            for i in range(n):
                r = rw.random()
                if i == 0 or i == n - 1 or r < 0.004:
                    # one ADS-B message first (it stays pending), Comm-B now and
                    # then, one more ADS-B at the very end
                    body = wire.gen_body(rw, True, [], 0.0)
                    df = 17 if (i == 0 or i == n - 1) else rw.choice([20, 21])
                    body = bytes([(df << 3) | (body[0] & 7)]) + body[1:]
                elif fmt == "beast" and sub == "modeac" and r < 0.9:
                    frames.append({"k": rw.choice(["1", "4"]), "ts": "%012X" % rw.getrandbits(48), "sig": rw.randrange(256),
                                   "body": "%04X" % rw.getrandbits(16)})
                    if frames[-1]["k"] == "4":
                        frames[-1]["body"] = "%028X" % rw.getrandbits(112)
                    continue
                else:
                    body = wire.gen_body(rw, False, [], 0.0)
                hx = body.hex().upper()
                if fmt == "beast":
                    frames.append({"k": "3" if len(body) == 14 else "2", "ts": "%012X" % rw.getrandbits(48), "sig": rw.randrange(256), "body": hx})
                elif fmt == "raw":
                    frames.append({"txt": hx if rw.random() < 0.5 else hx.lower(), "sep": rw.choice(["", "\n"])})
                else:
                    frames.append({"body": hx if len(body) == 14 else hx + "00" * 7, "ts": "%012X" % rw.getrandbits(48), "rs": "%06X" % rw.getrandbits(24)})
        elif mix != "any":
            # re-target the long frames' DF: long quiet stretches of one kind
            for f in frames:
                key = "body" if "body" in f else "txt"
                if f.get("k", "3") != "3" or len(f[key]) != 28 or int(f[key][:2], 16) >> 7 == 0:
                    continue
                if mix == "commb_heavy":
                    df = rw.choice([20, 21]) if rw.random() < 0.995 else 17
                else:
                    df = 17 if rw.random() < 0.97 else 20
                first = "%02X" % ((df << 3) | (int(f[key][:2], 16) & 7))
                f[key] = (first if f[key][2:3].upper() == f[key][2:3] else first.lower()) + f[key][2:]
    else:
        n = rw.randint(1, rw.choice([3, 8, 20, 40]))
        p_hot = rw.choice([0.0, 0.05, 0.2])
        frames = gen_forward_frames(rw, fmt, n, p_hot)
        if rw.random() < 0.25:
            out = []
            for f in frames:
                out.append(f)
                if rw.random() < 0.3:
                    out.append(dict(f))
            frames = out
    st = wire.serialise(fmt, frames)
    L = len(st.data)
    # pieces
    style = rc.random()
    cuts = set()
    if bulk:
        pos = 0
        size = rc.choice([1000, 4096, 8191, 8192, 8192, 20000])
        if mix == "quiet_heavy":
            size = rc.choice([12, 20, 24, 40, 100, 1000])   # thousands of reads, each completing a frame or two
        alt = [1, 7, 100, 4096, 8192] if mix != "quiet_heavy" else [1, 7, 16, 30]
        while pos < L:
            pos += size if rc.random() < 0.8 else rc.choice(alt)
            if 0 < pos < L:
                cuts.add(pos)
    elif style < 0.25:
        pass
    elif style < 0.5:
        for _ in range(rc.randint(1, 6)):
            if L > 1:
                cuts.add(rc.randrange(1, L))
    elif style < 0.8:
        pos = 0
        while pos < L and len(cuts) < 200:
            pos += rc.choice([1, 2, 3, 7, int(rc.expovariate(1 / 20.0)) + 1, int(rc.expovariate(1 / 100.0)) + 1])
            if 0 < pos < L:
                cuts.add(pos)
    else:
        tgt = set()
        for e in st.escapes:
            tgt.update([e + 1])
        for (s, e) in st.spans:
            tgt.update([s + 1, s + 2, e - 1, e, e + 1])
        tgt = [c for c in sorted(tgt) if 0 < c < L]
        for c in rc.sample(tgt, min(len(tgt), rc.randint(1, 10))):
            cuts.add(c)
    bounds = sorted(cuts) + [L]
    t = 1000
    deliveries = []
    for bnd in bounds:
        gap = rc.choice([0, 0, 10, 500, 20000, 300000])
        if rf_.random() < 0.06:
            gap = rf_.choice([10_000_001, 12_000_000, 25_000_000])  # longer than RCVTIMEO -> Again
        t += gap
        deliveries.append([t, bnd])
    zmq_ids = rf_.random() < 0.6
    pipe_cap = rf_.choice([1, 1, 2, 4, 64])
    sink_stalls = []
    for _ in range(rf_.choice([0, 0, 1, 2])):
        sink_stalls.append([rf_.randrange(0, t + 1), rf_.choice([1000, 100000, 5_000_000])])
    source_stalls = []
    for _ in range(rf_.choice([0, 0, 1])):
        source_stalls.append([rf_.randrange(0, t + 1), rf_.choice([1000, 2_000_000])])
    tape = {}
    p_sw = rs.choice([0.0, 0.05, 0.2, 0.5])
    for i in range(3000):
        if rs.random() < p_sw:
            tape[str(i)] = rs.randrange(1, 4)
    return {"rig": NAME, "prop": PROP, "fmt": fmt, "frames": frames, "deliveries": deliveries, "zmq_ids": zmq_ids,
            "pipe_cap": pipe_cap, "sink_stalls": sink_stalls, "source_stalls": source_stalls, "tape": tape,
            "prev": ([wire.gen_beast_frame(rw, 0.0)] if fmt == "beast" else [wire.gen_raw_frame(rw, 0.0)] if fmt == "raw" else [wire.gen_skysense_frame(rw, 0.0)]) if rf_.random() < 0.4 else [],
            "cpu_us": rs.choice([0, 1, 50]), "coalesce": rf_.random() < 0.5, "group": ("bulk-" if bulk else "") + ("ids" if zmq_ids else "noids")}


# ---------------------------------------------------------------------------
def execute(sc, keep_log=False):
    m = _setup()
    tc, src = m["tc"], m["src"]
    st = wire.serialise(sc["fmt"], sc["frames"])
    data = st.data
    stats = Stats()
    dl = [d for d in sc["deliveries"] if d[1] <= len(data)]
    if not dl or dl[-1][1] != len(data):
        dl = dl + [[(dl[-1][0] if dl else 0) + 1000, len(data)]]
    npieces = len(dl)
    cap = 4000 + 40 * npieces + 20 * len(sc["frames"])
    k = Kernel(tape=sc.get("tape"), step_cap=cap, t_end_us=None, cpu_us=sc.get("cpu_us", 0), keep_log=keep_log)
    oracle = Oracle(st)
    oracle.on_violation = lambda: k._begin_stop("violation")
    net = Net(k, sc.get("zmq_ids", True), oracle)
    net.coalesce = bool(sc.get("coalesce", False))
    fz = FakeZmqModule(k, net)
    ft = FakeTime(k)
    tc.zmq = fz
    tc.time = ft
    raw_pipe = SimPipe(k, "raw", sc.get("pipe_cap", 4))
    exq = SimQueue(k, "exc")
    stop = SimValue(k, False)

    class ObsSource(src.NetSource):
        def handle_messages(self_, messages):
            oracle.on_handed(messages, net)
            super(ObsSource, self_).handle_messages(messages)
            oracle.on_handled_return()

    if sc.get("prev"):
        # an earlier connection served by another client object in this process
        pst = wire.serialise(sc["fmt"], sc["prev"])
        c0 = src.NetSource("sim", 30005, sc["fmt"])
        c0.buffer.extend(pst.data)
        try:
            getattr(c0, {"beast": "read_beast_buffer", "raw": "read_raw_buffer", "skysense": "read_skysense_buffer"}[sc["fmt"]])()
        except Exception:
            pass
        stats.c["fault.reconnect_with_fresh_client"] += 1
    source = ObsSource("sim", 30005, sc["fmt"])
    t_src = k.spawn("source", lambda: source.run(raw_pipe, stop, exq))

    def sink():
        while True:
            b = raw_pipe.recv()
            oracle.batches.append(b)
            oracle.check_forwarding(False)

    t_sink = k.spawn("sink", sink)
    prev = [0]
    state = {"fed": 0}
    for (at, bnd) in dl:
        def ev(bnd=bnd):
            piece = data[prev[0]:bnd]
            prev[0] = bnd
            state["fed"] += 1
            if piece:
                net.deliver(piece)
                # probe: with id frames on, does an id frame land inside a frame?
                if net.zmq_ids and any(s < bnd - len(piece) < e for s, e in st.spans):
                    net.id_mid_frame += 1
        k.at(at, ev, "deliver")
    for at, dur in sc.get("sink_stalls", []):
        k.stall(t_sink, at, dur)
    for at, dur in sc.get("source_stalls", []):
        k.stall(t_src, at, dur)

    def quiescent():
        if k.spawned_pending():
            return False
        return (state["fed"] == npieces and not net.inq and not raw_pipe.q
                and t_src.wait is not None and t_src.wait[2] == "recv"
                and t_sink.wait is not None and k.now_us >= t_src.frozen_until and k.now_us >= t_sink.frozen_until)

    k.quiescent = quiescent
    try:
        k.run()
    finally:
        tc.zmq = m["real_zmq"]
        tc.time = m["real_time"]
    vio = list(oracle.violations)
    if t_src.crash is not None:
        vio.append({"clause": "C16.e", "detail": "NetSource.run let %s escape: %s" % (type(t_src.crash).__name__, str(t_src.crash)[:200])})
    elif exq.items:
        vio.append({"clause": "C16.e", "detail": "exception queue not empty: %s" % (str(exq.items[0])[-200:],)})
    if t_sink.crash is not None:
        raise RuntimeError("sink task crashed: %r" % (t_sink.crash,))
    if not vio:
        if k.stop_reason == "quiescent":
            oracle.check_forwarding(True)
            if len(oracle.handed) < st.closed(len(data)):
                oracle.vio("C16.c", "stream fully delivered and parsed: %d frames handed but %d complete" % (len(oracle.handed), st.closed(len(data))))
            vio = list(oracle.violations)
        elif k.stop_reason in ("step_cap", "deadlock"):
            vio.append({"clause": "C16.f", "detail": "no quiescence: run ended by %s after %d seam steps (%d pieces, %d frames); source waits on %r" % (
                k.stop_reason, k.steps, npieces, len(sc["frames"]), t_src.wait[2] if t_src.wait else None)})
    for key, n in k.counters.items():
        stats.c[key] += n
    if net.zmq_ids:
        stats.c["fault.zmq_identity_frames_runs"] += 1
        stats.c["probe.identity_frame_mid_frame"] += net.id_mid_frame
    stats.c["seam_steps"] += k.steps
    stats.c["evaluations"] += 1
    stats.c["context_switches"] += k.switches
    stats.c["pieces"] += npieces
    stats.c["batches_forwarded"] += len(oracle.batches)
    stats.c["stop." + str(k.stop_reason)] += 1
    if len(sc["frames"]) >= 300:
        stats.c["probe.bulk_stream_runs"] += 1
        if any(b - a >= 8192 for a, b in zip([0] + [d[1] for d in dl], [d[1] for d in dl])):
            stats.c["probe.read_of_8192_bytes_or_more"] += 1
    if npieces >= 2000:
        stats.c["probe.connection_with_over_2000_reads"] += 1
    if any(len(b["commb_msg"]) > 256 for b in oracle.batches):
        stats.c["probe.batch_with_over_256_commb"] += 1
    nontrivial = bool(k.counters) or k.switches > 0 or npieces > 1
    stats.sig((sc["fmt"], tuple(k.sched[:600])), nontrivial)
    for v in vio:
        stats.c["violations." + v["clause"]] += 1
        v["focus"] = {}
    if not stats.samples:
        stats.samples.append({"rig": NAME, "fmt": sc["fmt"], "n_frames": len(sc["frames"]), "deliveries": dl[:8], "zmq_ids": net.zmq_ids,
                              "pipe_cap": sc.get("pipe_cap"), "sink_stalls": sc.get("sink_stalls"), "tape_entries": len(sc.get("tape", {})),
                              "schedule_prefix": ["%s:%s" % (k.tasks[i].name, op) for i, op in k.sched[:24]]})
    return {"violations": vio, "stats": stats, "digest": k.log.digest(), "log": k.log.events if keep_log else None,
            "evals": 1, "sim_us": k.now_us}


def focus(sc, violation):
    return dict(sc)


def shrink(sc, fails, budget_n=300):
    b = Budget(budget_n)
    sc = dict(sc)
    for key, val in (("tape", {}), ("sink_stalls", []), ("source_stalls", []), ("cpu_us", 0), ("pipe_cap", 64), ("prev", [])):
        if sc.get(key) != val and b.take():
            c = dict(sc)
            c[key] = val
            if fails(c):
                sc = c
    # fewer frames (from the tail; deliveries are clipped at execution)
    while len(sc["frames"]) > 1 and b.take():
        c = dict(sc)
        c["frames"] = sc["frames"][:-1]
        L = len(wire.serialise(c["fmt"], c["frames"]).data)
        c["deliveries"] = [d for d in sc["deliveries"] if d[1] < L]
        if fails(c):
            sc = c
        else:
            break

    def t_del(dl):
        c = dict(sc)
        c["deliveries"] = dl
        return fails(c)

    sc["deliveries"] = ddmin_list(sc["deliveries"], t_del, b)
    # times toward a compact schedule
    c = dict(sc)
    c["deliveries"] = [[1000 + i * 10, d[1]] for i, d in enumerate(sc["deliveries"])]
    if b.take() and fails(c):
        sc = c
    if sc.get("tape"):
        items = sorted(sc["tape"].items(), key=lambda kv: int(kv[0]))

        def t_tape(it):
            c = dict(sc)
            c["tape"] = dict(it)
            return fails(c)

        sc["tape"] = dict(ddmin_list(items, t_tape, b))
    return sc
