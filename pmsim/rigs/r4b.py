"""R4b - demodulator loop.

Real code: RtlSdrSource.run on its own thread: sdr.read_samples(read_size) ->
_read_callback (np.absolute, buffer extend, threshold on buffer_size) ->
_process_buffer -> RtlSdrSource.handle_messages -> raw_pipe_in.send.
The fake device serves complex samples cut from the scripted RF timeline in
read_size chunks (module knobs read_size / buffer_size vary per run); a sink
task drains the pipe.
"""
import numpy as np

from .. import refenc as R
from .. import rf
from ..fakes import FakeTime, SimPipe, SimQueue, SimValue, SimExit
from ..kernel import Kernel
from ..util import substream, Stats
from ..shrink import Budget
from . import r4a

NAME = "r4b"
PROP = "C19"
KNOBS = [(512, 1024), (1024, 4096), (1000, 3000), (4000, 20000), (600, 1000), (700, 2000), (2000, 2000), (999, 3001)]

_mods = {}


def _setup():
    if _mods:
        return _mods
    m = r4a._setup()
    from ..bootstrap import boot

    boot()
    import pyModeS.streamer.source as src

    _mods.update(m)
    _mods["src"] = src
    _mods["knobs0"] = (m["rr"].read_size, m["rr"].buffer_size)
    _mods["time0"] = m["rr"].time
    return _mods


def window_len(read_size, buffer_size):
    n = -(-buffer_size // read_size)
    return n * read_size


def generate(run_seed, tier):
    rw = substream(run_seed, "world")
    rn = substream(run_seed, "noise")
    rs = substream(run_seed, "sched")
    knobs = KNOBS + ([(102400, 204800)] if tier != "quick" and rw.random() < 0.03 else [])
    read_size, buffer_size = rw.choice(knobs[-1:] if len(knobs) > len(KNOBS) else knobs)
    wl = window_len(read_size, buffer_size)
    nwin = rw.choice([2, 3, 4, 6, 8]) if wl < 100000 else 2
    shape = rn.choice(rf.SHAPES)
    snr = rn.choice(r4a.SNRS)
    p_corrupt = rw.choice([0.0, 0.2, 0.5])
    decreasing = rn.random() < 0.3
    windows = []
    left = 12
    for wi in range(nwin):
        kmax = max(1, (wl - 400) // 500)
        k = min(left, rw.choice([0, 1, 1, 2, 3, 5]) if wi else rw.choice([1, 1, 2]), kmax)
        first_min = 400 if (wi == 0 or decreasing) else rw.choice([0, 0, 1, 7, 400])
        frames = r4a.place_frames(rw, k, wl, first_min, r4a.gen_frame_hex, p_corrupt) if k else []
        left -= len(frames)
        windows.append({"n": wl, "nseed": rn.getrandbits(31), "frames": frames})
    noise = r4a.finish_noise(windows, shape, snr)
    if decreasing:
        r4a.decreasing_levels(rn, windows, shape, noise)
    return {"rig": NAME, "prop": PROP, "noise": noise, "windows": windows, "read_size": read_size, "buffer_size": buffer_size,
            "pipe_cap": rs.choice([1, 2, 64]), "sink_stalls": [[rs.randrange(0, 5000), rs.choice([100, 5000])] for _ in range(rs.choice([0, 0, 1]))],
            "op_stalls": [["time", rs.randint(1, 10), rs.choice([300000, 2000000])] for _ in range(rs.choice([0, 0, 1, 2]))],
            "phase_seed": rn.getrandbits(31), "tape": {str(i): 1 for i in range(400) if rs.random() < 0.2}}


def execute(sc, keep_log=False):
    m = _setup()
    rr, src = m["rr"], m["src"]
    stats = Stats()
    if not r4a.check_premise(sc) or any(w["n"] != window_len(sc["read_size"], sc["buffer_size"]) for w in sc["windows"]):
        return {"violations": [], "stats": stats, "digest": "premise-false", "log": None, "evals": 0, "sim_us": 0}
    no = sc["noise"]
    amps = []
    expected_windows = []
    for w in sc["windows"]:
        buf, exp, _ = rf.build_window(w, no)
        amps.append(buf)
        expected_windows.append(exp)
    amp = np.concatenate(amps)
    ph = np.random.RandomState(sc["phase_seed"] & 0x7FFFFFFF).random_sample(len(amp)) * 2 * np.pi
    iq = (amp * np.exp(1j * ph)).astype(np.complex128)
    read_size, buffer_size = sc["read_size"], sc["buffer_size"]
    k = Kernel(tape=sc.get("tape"), step_cap=5000 + 20 * (len(amp) // read_size + 1), keep_log=keep_log)
    ft = FakeTime(k)
    rr.time = ft
    rr.read_size, rr.buffer_size = read_size, buffer_size
    raw_pipe = SimPipe(k, "raw", sc.get("pipe_cap", 4))
    exq = SimQueue(k, "exc")
    stop = SimValue(k, False)
    handed = []      # per processing window
    batches = []
    pos = [0]
    state = {"eof": False}

    class ObsSource(src.RtlSdrSource):
        def handle_messages(self_, messages):
            handed.append([x[0] for x in messages])
            super(ObsSource, self_).handle_messages(messages)

    source = ObsSource()

    def reader(n):
        k.seam_generic("read_samples", n)
        if pos[0] >= len(iq):
            state["eof"] = True
            k._begin_stop("device-exhausted")
            raise SimExit()
        chunk = iq[pos[0]:pos[0] + n]
        pos[0] += n
        k.now_us += int(len(chunk) / 2)
        return chunk

    source.sdr._reader = reader
    t_src = k.spawn("source", lambda: source.run(raw_pipe, stop, exq))

    def sink():
        while True:
            batches.append(raw_pipe.recv())

    t_sink = k.spawn("sink", sink)
    for at, dur in sc.get("sink_stalls", []):
        k.stall(t_sink, at, dur)
    for op, nth, dur in sc.get("op_stalls", []):
        k.stall_at_op(t_src, op, nth, dur)   # descheduled between two clock reads inside _process_buffer
    try:
        k.run()
    finally:
        rr.time = m["time0"]
        rr.read_size, rr.buffer_size = m["knobs0"]
    vio = []
    if t_src.crash is not None:
        vio.append({"clause": "C19.a", "detail": "RtlSdrSource.run let %s escape: %s" % (type(t_src.crash).__name__, str(t_src.crash)[:200])})
    elif exq.items:
        vio.append({"clause": "C19.a", "detail": "exception queue not empty: %s" % (str(exq.items[0]).strip().splitlines()[-1][:200],)})
    if t_sink.crash is not None:
        raise RuntimeError("sink crashed: %r" % (t_sink.crash,))
    if not vio:
        if k.stop_reason != "device-exhausted":
            vio.append({"clause": "C19.a", "detail": "read loop did not consume the RF script: ended by %s after %d steps" % (k.stop_reason, k.steps)})
        elif len(handed) != len(sc["windows"]):
            vio.append({"clause": "C19.a", "detail": "%d processing windows expected (read_size=%d buffer_size=%d) but handle_messages was called %d times" % (
                len(sc["windows"]), read_size, buffer_size, len(handed))})
        else:
            for wi, (got, exp) in enumerate(zip(handed, expected_windows)):
                bad17 = [g for g in got if len(g) == 28 and R.hex_df(g) == 17 and R.crc_of_hex(g) != 0]
                if bad17:
                    vio.append({"clause": "C19.b", "detail": "window %d returned DF17 frame %s whose checksum is non-zero" % (wi, bad17[0])})
                if got != exp:
                    vio.append({"clause": "C19.a", "detail": "window %d (read_size=%d, buffer_size=%d, noise %s %.1f dB): returned %r, expected %r" % (
                        wi, read_size, buffer_size, no["shape"], no["snr_db"], got[:3], exp[:3])})
                    break
    if not vio:
        # C19.c: what reaches the pipe is the long DF17/20/21 subset, once, in order
        flat = [x for w in handed for x in w]
        ea = [x for x in flat if len(x) == 28 and R.hex_df(x) in (17, 18)]
        ec = [x for x in flat if len(x) == 28 and R.hex_df(x) in (20, 21)]
        a = [x for b in batches for x in b["adsb_msg"]]
        c = [x for b in batches for x in b["commb_msg"]]
        pend = raw_pipe.q
        import pickle
        for blob in pend:
            b = pickle.loads(blob)
            a += b["adsb_msg"]
            c += b["commb_msg"]
        if a != ea[:len(a)] or len(a) < len(ea) - 1:
            vio.append({"clause": "C19.c", "detail": "DF17 forwarded %r..., demodulated %r..." % (a[:3], ea[:3])})
        if c != ec[:len(c)]:
            vio.append({"clause": "C19.c", "detail": "DF20/21 forwarded %r..., demodulated %r..." % (c[:3], ec[:3])})
        for b in batches:
            if len(b["adsb_ts"]) != len(b["adsb_msg"]) or len(b["commb_ts"]) != len(b["commb_msg"]):
                vio.append({"clause": "C19.c", "detail": "misaligned ts/msg lists in a batch"})
    for key, n in k.counters.items():
        stats.c[key] += n
    stats.c["seam_steps"] += k.steps
    stats.c["evaluations"] += len(handed)
    stats.c["samples_processed"] += pos[0]
    stats.c["knob.read%d_buf%d" % (read_size, buffer_size)] += 1
    stats.c["batches_forwarded"] += len(batches)
    stats.c["noise." + no["shape"]] += 1
    for w in sc["windows"]:
        for f in w["frames"]:
            if f["flips"]:
                stats.c["fault.corrupted_df17"] += 1
    sig = tuple((len(w["frames"]), tuple((len(f["hex"]), f["start"] & 1, bool(f["flips"])) for f in w["frames"])) for w in sc["windows"])
    stats.sig((read_size, buffer_size, no["shape"], no["snr_db"], sig, tuple(k.sched[:200])), True)
    for v in vio:
        stats.c["violations." + v["clause"]] += 1
        v["focus"] = {}
    if not stats.samples:
        stats.samples.append({"rig": NAME, "read_size": read_size, "buffer_size": buffer_size, "noise": no, "n_windows": len(sc["windows"]),
                              "first_window_frames": sc["windows"][0]["frames"][:2], "pipe_cap": sc.get("pipe_cap")})
    return {"violations": vio, "stats": stats, "digest": k.log.digest(), "log": k.log.events if keep_log else None,
            "evals": len(handed), "sim_us": pos[0] // 2}


def focus(sc, violation):
    return dict(sc)


def shrink(sc, fails, budget_n=120):
    b = Budget(budget_n)
    sc = dict(sc)
    for key, val in (("tape", {}), ("sink_stalls", []), ("op_stalls", []), ("pipe_cap", 64)):
        if sc.get(key) != val and b.take():
            c = dict(sc)
            c[key] = val
            if fails(c):
                sc = c
    # drop trailing windows, then frames
    while len(sc["windows"]) > 1 and b.take():
        c = dict(sc)
        c["windows"] = sc["windows"][:-1]
        if fails(c):
            sc = c
        else:
            break
    for wi in range(len(sc["windows"])):
        fi = 0
        while fi < len(sc["windows"][wi]["frames"]) and b.take():
            ws = [dict(w, frames=list(w["frames"])) for w in sc["windows"]]
            del ws[wi]["frames"][fi]
            c = dict(sc)
            c["windows"] = ws
            if r4a.check_premise(c) and fails(c):
                sc = c
            else:
                fi += 1
    return sc
