"""R4a - software demodulator, direct.

Real code: RtlReader.__init__ (against the fake rtlsdr module), then
_process_buffer / _calc_noise / _check_preamble / _check_msg, several buffers in
a row on the *same* instance so that noise_floor (running minimum) and left-over
samples are history.
"""
from .. import refenc as R
from .. import rf
from ..fakes import StepClock
from ..util import substream, EventLog, Stats
from ..shrink import ddmin_list, Budget

NAME = "r4a"
PROP = "C19"
SNRS = [10.0, 10.5, 12.0, 14.0, 16.0, 20.0, 30.0, 40.0]
MIN_GAP = 240

_mods = {}


def _setup():
    if _mods:
        return _mods
    from ..bootstrap import boot

    boot()
    import pyModeS.extra.rtlreader as rr

    clock = StepClock()
    rr.time = clock
    _mods["rr"] = rr
    _mods["clock"] = clock
    return _mods


FLEET = []   # when non-empty, DF17 frames carry one of these addresses (set per run by generate())


def gen_frame_hex(rng):
    k = rng.random()
    style = rng.random()

    def body(nbits):
        if style < 0.1:
            return 0
        if style < 0.2:
            return (1 << nbits) - 1
        if style < 0.3:
            return int("01" * (nbits // 2), 2)
        if style < 0.4:
            return rng.getrandbits(nbits) & ~((1 << rng.randrange(1, nbits)) - 1)  # trailing zeros
        return rng.getrandbits(nbits)

    if k < 0.45:
        addr = rng.choice(FLEET) if FLEET else "%06X" % rng.getrandbits(24)
        data = "%02X" % ((17 << 3) | rng.randrange(8)) + addr + "%014X" % body(56)
        return R.frame_with_parity(data)
    if k < 0.7:
        df = rng.choice([20, 21])
        return "%02X" % ((df << 3) | rng.randrange(8)) + "%026X" % body(104)
    df = rng.choice([4, 5, 11])
    return "%02X" % ((df << 3) | rng.randrange(8)) + "%012X" % body(48)


def place_frames(rng, nframes_max, wsize, first_min, gen_hex, p_corrupt):
    """Sequential placement with gaps >= MIN_GAP; returns frame dicts."""
    frames = []
    pos = first_min + rng.choice([0, 0, 1, 2, 3, rng.randrange(0, 200)])
    p_repeat = rng.choice([0.0, 0.0, 0.3])
    while len(frames) < nframes_max:
        hx = gen_hex(rng)
        if frames and rng.random() < p_repeat:
            hx = frames[-1]["hex"]   # the same reply again (e.g. repeated DF11 / identification squitter)
        nb = len(hx) * 4
        fs = rf.frame_samples(nb)
        if pos + fs > wsize:
            if frames or first_min + fs > wsize:
                break
            pos = wsize - fs
        if rng.random() < 0.12 and wsize - fs - pos > 0 and wsize - fs - 2 >= pos:
            pos = wsize - fs - rng.choice([0, 1, 2])  # end right at the window edge
        f = {"hex": hx, "start": pos, "amp": rng.choice([0.3, 0.31, 0.35, 0.5, 0.8, 1.0, 1.2, 1.35, 1.4, rng.uniform(0.3, 1.4)]),
             "ripple": rng.choice([0.0, 0.0, 0.02, 0.05, -1.0, -2.0]), "rseed": rng.getrandbits(31), "flips": []}
        if R.hex_df(hx) == 17 and rng.random() < p_corrupt:
            if rng.random() < 0.6:
                f["flips"] = sorted(rng.sample(range(5, 112), rng.randint(1, 5)))
            else:
                L = rng.randint(2, 24)
                s0 = rng.randrange(5, 112 - L)
                f["flips"] = sorted(set([s0, s0 + L - 1] + [s0 + i for i in range(L) if rng.random() < 0.5]))
        frames.append(f)
        pos = pos + fs + rng.choice([MIN_GAP, MIN_GAP, MIN_GAP + 1, 250, 300, 500, rng.randrange(MIN_GAP, 3000)])
    return frames


def finish_noise(windows, shape, snr):
    """Noise peak from the weakest pulse of the run: every noise sample is at
    least ``snr`` dB (>= 10) below it."""
    minp = None
    for w in windows:
        for f in w["frames"]:
            nb = len(f["hex"]) * 4
            m = float(rf.pulse_amps(f["amp"], f["ripple"], f["rseed"], 4 + nb).min())
            minp = m if minp is None else min(minp, m)
    if minp is None:
        minp = 0.3
    peak = 0.0 if shape == "zero" else minp / (10 ** (snr / 20.0))
    return {"shape": shape, "peak": peak, "snr_db": snr, "min_pulse": minp}


def window_min_pulse(w):
    minp = None
    for f in w["frames"]:
        nb = len(f["hex"]) * 4
        m = float(rf.pulse_amps(f["amp"], f["ripple"], f["rseed"], 4 + nb).min())
        minp = m if minp is None else min(minp, m)
    return minp


def decreasing_levels(rng, windows, shape, noise):
    """Non-stationary but benign regime: the noise level never rises from one
    processing window to the next (the receiver gain settles, a jammer goes
    away).  Window w gets its own peak: at least 10 dB below the weakest pulse
    *of that window*, and not above the previous window's peak.  Frames are
    re-scaled so that earlier windows are loud/strong and later ones quiet/weak."""
    if shape == "zero" or len(windows) < 2:
        return
    n = len(windows)
    # amplitudes: strong first, weak later
    for wi, w in enumerate(windows):
        hi = 1.4 - (1.4 - 0.3) * wi / max(1, n - 1)
        for f in w["frames"]:
            f["amp"] = round(max(0.3, min(1.4, hi * rng.choice([1.0, 1.0, 0.9, 0.8]))), 4)
    prev = None
    for w in windows:
        mp = window_min_pulse(w)
        snr = rng.choice(SNRS)
        want = (mp if mp is not None else 0.3) / (10 ** (snr / 20.0))
        pk = want if prev is None else min(prev, want)
        w["pk"] = pk
        prev = pk
    noise["peak"] = windows[0]["pk"]
    noise["regime"] = "decreasing"


def generate_dense(rw, rn, tier):
    """Dense regime: one large first buffer packed with strong frames at the
    minimum legal spacing from sample 0 on, so that no aligned 100-us window in
    the packed stretch is noise only; then a quiet stretch (the noise-only windows
    the premise asks for come *late* in the buffer) and weak frames."""
    shape = rn.choice(rf.SHAPES)
    snr = rn.choice(SNRS)
    nstrong = rw.choice([20, 30, 45, 60])
    quiet_first = rw.random() < 0.5
    fully_dense = quiet_first and rw.random() < 0.6   # not a single noise-only window in the packed buffer
    frames = []
    pos = rw.choice([0, 0, 1, 3, 150]) if not fully_dense else 0

    def packed(amp_choices):
        # pick long or short so that the frame's end leaves no aligned 200-sample
        # window inside the minimum gap that follows
        # (in the fully dense variant prefer ends 40..120 samples into a window:
        # then every window overlaps a frame by at least 40 samples)
        good = range(40, 121) if fully_dense else range(1, 160)
        want_long = ((pos + 240) % 200) in good
        if not want_long and ((pos + 128) % 200) not in good:
            want_long = ((pos + 240) % 200) in range(1, 160)
            if not want_long and ((pos + 128) % 200) not in range(1, 160):
                want_long = rw.random() < 0.5
        for _try in range(40):
            hx = gen_frame_hex(rw)
            if (len(hx) == 28) == want_long:
                break
        return {"hex": hx, "start": pos, "amp": rw.choice(amp_choices), "ripple": 0.0, "rseed": rw.getrandbits(31), "flips": []}

    for _ in range(nstrong):
        if fully_dense and frames:
            # strict steering: choose the gap (>= MIN_GAP, short enough that no
            # window falls into it) and the frame kind so that the frame ends
            # 40..120 samples into a window and every window keeps >= 30 samples
            # of strong signal
            e_prev = pos - MIN_GAP
            r_prev = e_prev % 200
            hit = None
            for g in range(MIN_GAP, max(MIN_GAP + 1, 371 - r_prev)):
                for fs_ in (240, 128):
                    if 40 <= (e_prev + g + fs_) % 200 <= 120:
                        hit = (g, fs_)
                        break
                if hit:
                    break
            if hit:
                pos = e_prev + hit[0]
                for _try in range(60):
                    hx = gen_frame_hex(rw)
                    if rf.frame_samples(len(hx) * 4) == hit[1]:
                        break
                f = {"hex": hx, "start": pos, "amp": rw.choice([1.3, 1.4]), "ripple": 0.0, "rseed": rw.getrandbits(31), "flips": []}
                frames.append(f)
                pos += rf.frame_samples(len(f["hex"]) * 4) + MIN_GAP
                continue
        f = packed([1.2, 1.3, 1.4])
        frames.append(f)
        pos += rf.frame_samples(len(f["hex"]) * 4) + MIN_GAP
    tail = fully_dense and rw.random() < 0.6
    if tail:
        # the weak frame sits in the trailing partial 100-us window (which the
        # noise estimate ignores) and the last complete window overlaps the last
        # strong frame by 30-31 samples: the per-buffer estimate is all signal
        e_prev = pos - MIN_GAP
        r_prev = e_prev % 200
        found = None
        for g in range(MIN_GAP, max(MIN_GAP + 1, 399 - r_prev)):
            for fs_, want_long in ((240, True), (128, False)):
                if (e_prev + g + fs_) % 200 in (30, 31):
                    found = (g, want_long)
                    break
            if found:
                break
        if found:
            g, want_long = found
            for _try in range(60):
                hx = gen_frame_hex(rw)
                if (len(hx) == 28) == want_long:
                    break
            st0 = e_prev + g
            frames.append({"hex": hx, "start": st0, "amp": 1.4, "ripple": 0.0, "rseed": rw.getrandbits(31), "flips": []})
            pos = st0 + rf.frame_samples(len(hx) * 4) + MIN_GAP
            for _try in range(60):
                hx = gen_frame_hex(rw)
                if len(hx) == 14:
                    break
            frames.append({"hex": hx, "start": pos, "amp": rw.choice([0.3, 0.3, 0.32]), "ripple": 0.0, "rseed": rw.getrandbits(31), "flips": []})
            n = pos + rf.frame_samples(len(hx) * 4) + rw.choice([0, 0, 1])
        else:
            tail = False
    if tail:
        pass
    elif fully_dense:
        for k in range(rw.choice([1, 2, 3])):
            f = packed([0.3, 0.32, 0.4])
            frames.append(f)
            pos += rf.frame_samples(len(f["hex"]) * 4) + MIN_GAP
            if k == 0 or rw.random() < 0.5:
                f = packed([1.2, 1.4])
                frames.append(f)
                pos += rf.frame_samples(len(f["hex"]) * 4) + MIN_GAP
        n = pos - MIN_GAP + rw.choice([0, 1, 30])
    else:
        pos += rw.choice([400, 600, 1000])   # >= 2 aligned noise-only windows somewhere in here
        for _ in range(rw.choice([1, 2, 4])):
            hx = gen_frame_hex(rw)
            fs = rf.frame_samples(len(hx) * 4)
            frames.append({"hex": hx, "start": pos, "amp": rw.choice([0.3, 0.32, 0.4]), "ripple": 0.0, "rseed": rw.getrandbits(31), "flips": []})
            pos += fs + rw.choice([MIN_GAP, 300, 800])
        n = pos + rw.choice([0, 1, 100, 700])
    windows = [{"n": n, "nseed": rn.getrandbits(31), "frames": frames}]
    if quiet_first:
        # a quiet buffer first: the floor is learnt low, then the packed buffer
        # offers (almost) no noise-only window
        windows.insert(0, {"n": rw.choice([400, 1000, 2000]), "nseed": rn.getrandbits(31), "frames": []})
    if rw.random() < 0.5:
        windows.append({"n": rw.choice([2000, 4096]), "nseed": rn.getrandbits(31),
                        "frames": place_frames(rw, rw.choice([1, 2, 3]), 2000, rw.choice([0, 7, 400]), gen_frame_hex, 0.0)})
    noise = finish_noise(windows, shape, snr)
    noise["regime"] = "dense"
    return {"rig": NAME, "prop": PROP, "noise": noise, "windows": windows}


def generate(run_seed, tier):
    rw = substream(run_seed, "world")
    rn = substream(run_seed, "noise")
    if rw.random() < 0.04:
        return generate_dense(rw, rn, tier)
    nwin = rw.choice([1, 2, 2, 3, 4, 6])
    soak = rw.random() < (0.01 if tier != "quick" else 0.004)
    if soak:
        nwin = rw.choice([40, 120]) if tier != "quick" else 40   # one reader instance over many buffers (counters, slow drift of state)
    # a small fleet: the same few transponders are heard again and again
    del FLEET[:]
    if rw.random() < 0.35:
        FLEET.extend("%06X" % rw.getrandbits(24) for _ in range(rw.choice([1, 1, 2, 3])))
    sizes = [2000, 3000, 4096, 8000] + ([20000] if tier != "quick" or rw.random() < 0.1 else [])
    if tier != "quick" and rw.random() < 0.02:
        sizes = [204800]
        nwin = rw.choice([1, 2])
    shape = rn.choice(rf.SHAPES)
    snr = rn.choice(SNRS)
    p_corrupt = rw.choice([0.0, 0.2, 0.5])
    decreasing = rn.random() < 0.3
    windows = []
    left = 12 if not soak else 400
    for wi in range(nwin):
        n = rw.choice(sizes)
        k = rw.choice([0, 1, 1, 2, 3, 5]) if wi > 0 else rw.choice([1, 1, 2, 3])
        if soak:
            k = rw.choice([3, 5, 8])   # a few hundred frames over the life of the reader
        k = min(k, left)
        # a window in which the noise level may have dropped starts with two
        # noise-only 100-us windows: the receiver must have heard the new level
        first_min = 400 if (wi == 0 or decreasing) else rw.choice([0, 0, 1, 7, 400])
        frames = place_frames(rw, k, n, first_min, gen_frame_hex, p_corrupt) if k else []
        left -= len(frames)
        windows.append({"n": n, "nseed": rn.getrandbits(31), "frames": frames})
    del FLEET[:]
    if soak and not decreasing:
        # amplitude profile over the life of the reader: long weak stretch then
        # strong frames, or the reverse, or mixed (left as drawn)
        prof = rw.choice(["weak_then_strong", "strong_then_weak", "mixed"])
        cut = int(len(windows) * 0.8)
        for wi, w in enumerate(windows):
            for f in w["frames"]:
                if prof == "weak_then_strong":
                    f["amp"] = rw.choice([0.3, 0.31, 0.33]) if wi < cut else rw.choice([1.3, 1.4])
                elif prof == "strong_then_weak":
                    f["amp"] = rw.choice([1.3, 1.4]) if wi < cut else rw.choice([0.3, 0.33])
                if prof != "mixed":
                    f["ripple"] = 0.0
                    f.pop("drop", None)
    noise = finish_noise(windows, shape, snr)
    if decreasing:
        decreasing_levels(rn, windows, shape, noise)
    # channel fault: a fade blanks both chips of some bit periods of a DF17 frame
    # (only in quiet runs, where the outcome is determined)
    quiet = noise["shape"] == "zero" or max(w.get("pk", noise["peak"]) for w in windows) <= 0.15 * 0.3
    if quiet and rw.random() < 0.5:
        for w in windows:
            for f in w["frames"]:
                if R.hex_df(f["hex"]) == 17 and not f["flips"] and f["ripple"] >= 0 and f["amp"] * (1 - f["ripple"]) >= 0.86 and rw.random() < 0.5:
                    k0 = rw.choice([8, 20, 33, 52, 57, 80, 100, 108, 110])
                    f["drop"] = [k0, rw.choice([1, 1, 2, 5])]
                    if f["drop"][0] + f["drop"][1] > 112:
                        f["drop"][1] = 112 - f["drop"][0]
    # clock fault: the wall clock steps forward (or the process is descheduled)
    # between two of the reader's clock reads
    jumps = [[rw.randint(1, 12), rw.choice([300000, 2000000, 3600000000, -500000, -2000000])] for _ in range(rw.choice([0, 0, 0, 1, 2]))]   # time.time() is not monotonic: NTP steps go both ways
    return {"rig": NAME, "prop": PROP, "noise": noise, "windows": windows, "clock_jumps": jumps}


# ---------------------------------------------------------------------------
def check_premise(sc):
    """The scenario must stay inside model M (used by the minimiser, which may
    otherwise wander out of the statement's preconditions)."""
    no = sc["noise"]
    minp = None
    prev_pk = None
    for wi, w in enumerate(sc["windows"]):
        pk = w.get("pk", no["peak"])
        if prev_pk is not None and pk > prev_pk * (1 + 1e-12):
            return False  # noise level must not rise within a run
        if prev_pk is not None and pk < prev_pk and any(f["start"] < 400 for f in w["frames"]):
            return False  # after a drop the window starts with >= 2 noise-only 100-us windows
        prev_pk = pk
        wmin = window_min_pulse(w)
        if wmin is not None and no["shape"] != "zero" and pk > wmin / (10 ** 0.5) * (1 + 1e-12):
            return False
        end_prev = None
        for f in w["frames"]:
            nb = len(f["hex"]) * 4
            fs = rf.frame_samples(nb)
            if f["start"] < 0 or f["start"] + fs > w["n"]:
                return False
            if f.get("drop"):
                # dropout fault only where its outcome is determined: DF17 (parity
                # decides), noise well below the break threshold, and a fragment
                # length that cannot be mistaken for a 56-bit frame
                k0, r = f["drop"]
                if R.hex_df(f["hex"]) != 17 or not (8 <= k0 <= 110) or 53 <= k0 <= 56 or r < 1 or k0 + r > 112:
                    return False
                # ... and a pulse amplitude above the preamble template's tolerance
                # for a gap sample (0.8): the scan resumes inside the faded frame,
                # and weaker data pulses are acceptable "gaps" to _check_preamble
                nbf = len(f["hex"]) * 4
                if float(rf.pulse_amps(f["amp"], f.get("ripple", 0), f.get("rseed", 0), 4 + nbf).min()) < 0.85:
                    return False
                if no["shape"] != "zero" and w.get("pk", no["peak"]) > 0.15 * 0.3:
                    return False
            if wi == 0 and f["start"] < 400 and no.get("regime") != "dense":
                return False
            if end_prev is not None and f["start"] - end_prev < MIN_GAP:
                return False
            end_prev = f["start"] + fs
            if not (0.3 <= f["amp"] <= 1.4):
                return False
            m = float(rf.pulse_amps(f["amp"], f.get("ripple", 0), f.get("rseed", 0), 4 + nb).min())
            minp = m if minp is None else min(minp, m)
        if w["n"] < 400:
            return False
        if wi == 0 and no.get("regime") == "dense":
            # the receiver must be able to hear the noise alone for 100 us
            # somewhere in its first buffer: an aligned 200-sample window free of frames
            busy = [(f["start"], f["start"] + rf.frame_samples(len(f["hex"]) * 4)) for f in w["frames"]]
            if not any(all(b <= a0 or a >= a0 + 200 for a, b in busy) for a0 in range(0, w["n"] - 199, 200)):
                return False
    if minp is not None and no["shape"] != "zero" and "pk" not in sc["windows"][0] and no["peak"] > minp / (10 ** 0.5) * (1 + 1e-12):
        return False
    return True


def execute(sc, keep_log=False):
    m = _setup()
    rr = m["rr"]
    stats = Stats()
    log = EventLog(keep=keep_log)
    violations = []
    if not check_premise(sc):
        return {"violations": [], "stats": stats, "digest": "premise-false", "log": None, "evals": 0, "sim_us": 0}
    reader = rr.RtlReader()
    no = sc["noise"]
    m["clock"].reads = 0
    m["clock"].jumps = dict((int(a), int(b)) for a, b in sc.get("clock_jumps", []))
    if m["clock"].jumps:
        stats.c["fault.clock_jump_between_reads"] += len(m["clock"].jumps)
    evals = 0
    samples = 0
    for wi, w in enumerate(sc["windows"]):
        buf, expected, _ = rf.build_window(w, no)
        m["clock"].now_us += int(w["n"] / 2)
        reader.signal_buffer = reader.signal_buffer + buf.tolist() if wi and reader.signal_buffer else buf.tolist()
        carried = len(reader.signal_buffer) - w["n"]
        try:
            out = reader._process_buffer()
        except Exception as ex:  # noqa
            violations.append({"clause": "C19.a", "window": wi,
                               "detail": "_process_buffer raised %s: %s in window %d" % (type(ex).__name__, ex, wi)})
            break
        evals += 1
        samples += w["n"]
        got = [x[0] for x in out]
        log.add(wi, w["n"], got, round(float(reader.noise_floor), 9))
        sig = []
        for f in w["frames"]:
            hx = f["hex"]
            kind = "L17" if R.hex_df(hx) == 17 else ("L2x" if len(hx) == 28 else "S")
            sig.append((kind, no["snr_db"], f["start"] & 1, int(f["amp"] * 4), bool(f["flips"]), bool(f.get("drop"))))
            stats.c["frames." + kind] += 1
            if f["flips"]:
                stats.c["fault.corrupted_df17"] += 1
            if f.get("drop"):
                stats.c["fault.dropout_in_df17"] += 1
            if f["start"] & 1:
                stats.c["probe.odd_start_offset"] += 1
            if f.get("ripple", 0) < 0:
                stats.c["probe.per_pulse_amplitudes_anywhere_in_0.3_1.4"] += 1
            if f["amp"] < 0.4:
                stats.c["probe.amp_below_0.4"] += 1
            if f["amp"] > 1.3:
                stats.c["probe.amp_above_1.3"] += 1
            if w["n"] - (f["start"] + rf.frame_samples(len(hx) * 4)) <= 2:
                stats.c["probe.frame_ends_at_window_edge"] += 1
        for a, b in zip(w["frames"], w["frames"][1:]):
            if b["start"] - (a["start"] + rf.frame_samples(len(a["hex"]) * 4)) <= MIN_GAP + 1:
                stats.c["probe.two_frames_at_min_gap"] += 1
            if len(a["hex"]) == 14 and len(b["hex"]) == 28:
                stats.c["probe.short_then_long"] += 1
        if no["shape"] != "zero" and no["snr_db"] < 14 and w["frames"]:
            stats.c["probe.snr_below_14dB_window"] += 1
        if "pk" in w and wi > 0 and w["pk"] < sc["windows"][wi - 1].get("pk", 0) * 0.5 and w["frames"]:
            stats.c["probe.noise_level_dropped_by_half_or_more"] += 1
        stats.c["noise." + no["shape"]] += 1
        if wi == 39:
            stats.c["probe.one_reader_over_40_or_more_buffers"] += 1
        if no.get("regime") == "dense" and wi > 0 and len(w["frames"]) >= 20:
            busy = [(f["start"], f["start"] + rf.frame_samples(len(f["hex"]) * 4)) for f in w["frames"]]
            if not any(all(b <= a0 or a >= a0 + 200 for a, b in busy) for a0 in range(0, w["n"] - 199, 200)):
                stats.c["probe.packed_buffer_without_any_quiet_window_after_a_quiet_one"] += 1
                last = w["frames"][-1]
                if last["amp"] < 0.4 and last["start"] >= (w["n"] // 200) * 200:
                    stats.c["probe.weak_frame_in_trailing_partial_noise_window"] += 1
        if wi == 0 and no.get("regime") == "dense" and w["n"] > 12800:
            busy = [(f["start"], f["start"] + rf.frame_samples(len(f["hex"]) * 4)) for f in w["frames"]]
            if not any(all(b <= a0 or a >= a0 + 200 for a, b in busy) for a0 in range(0, 12800, 200)):
                stats.c["probe.dense_first_buffer_no_quiet_window_in_first_12800_samples"] += 1
        for a, b in zip(w["frames"], w["frames"][1:]):
            if a["hex"] == b["hex"]:
                stats.c["probe.same_frame_twice_in_a_row"] += 1
                break
        nontrivial = bool(w["frames"]) and (no["shape"] != "zero" or any(f["flips"] for f in w["frames"]) or wi > 0)
        stats.sig((wi > 0, no["shape"], no.get("regime", "stationary"), tuple(sig)), nontrivial)
        bad17 = [g for g in got if len(g) == 28 and R.hex_df(g) == 17 and R.crc_of_hex(g) != 0]
        if bad17:
            violations.append({"clause": "C19.b", "window": wi,
                               "detail": "window %d returned DF17 frame %s whose checksum is non-zero" % (wi, bad17[0])})
        if got != expected:
            missing = [e for e in expected if e not in got]
            extra = [g for g in got if g not in expected]
            violations.append({"clause": "C19.a", "window": wi,
                               "detail": "window %d (%d samples, noise %s peak %.4f = %.1f dB below weakest pulse %.3f): returned %d frames, expected %d; missing %r extra %r" % (
                                   wi, w["n"], no["shape"], no["peak"], no["snr_db"], no["min_pulse"], len(got), len(expected), missing[:2], extra[:2])})
        if violations:
            break
    stats.c["evaluations"] += evals
    stats.c["seam_steps"] += evals
    stats.c["samples_processed"] += samples
    for v in violations:
        stats.c["violations." + v["clause"]] += 1
        v["focus"] = {"window": v["window"]}
    if not stats.samples:
        stats.samples.append({"rig": NAME, "noise": no, "windows": [{"n": w["n"], "frames": w["frames"][:2]} for w in sc["windows"][:2]]})
    return {"violations": violations, "stats": stats, "digest": log.digest(), "log": log.events if keep_log else None,
            "evals": evals, "sim_us": samples // 2}


def focus(sc, violation):
    c = dict(sc)
    c["windows"] = sc["windows"][:violation["focus"]["window"] + 1]
    return c


def shrink(sc, fails, budget_n=300):
    b = Budget(budget_n)
    sc = dict(sc)

    def with_windows(ws):
        c = dict(sc)
        c["windows"] = ws
        return c

    # drop leading windows (keeping the premise: first window needs 400 noise samples)
    ws = list(sc["windows"])
    while len(ws) > 1 and b.take():
        c = with_windows(ws[1:])
        if check_premise(c) and fails(c):
            ws = ws[1:]
        else:
            break
    sc["windows"] = ws
    # drop frames
    for wi in range(len(sc["windows"])):
        def t(fr, wi=wi):
            ws2 = [dict(w) for w in sc["windows"]]
            ws2[wi]["frames"] = fr
            c = with_windows(ws2)
            return check_premise(c) and fails(c)
        fr = ddmin_list(sc["windows"][wi]["frames"], t, b)
        sc["windows"] = [dict(w) for w in sc["windows"]]
        sc["windows"][wi]["frames"] = fr
    # simplify frames: no ripple, no flips, amplitude 1.0, noise peak re-derived is NOT done (peak is part of the scenario)
    for wi in range(len(sc["windows"])):
        for fi in range(len(sc["windows"][wi]["frames"])):
            for key, val in (("ripple", 0.0), ("flips", []), ("amp", 1.0)):
                if not b.take():
                    return sc
                ws2 = [dict(w, frames=[dict(f) for f in w["frames"]]) for w in sc["windows"]]
                if ws2[wi]["frames"][fi].get(key) == val:
                    continue
                ws2[wi]["frames"][fi][key] = val
                c = with_windows(ws2)
                if check_premise(c) and fails(c):
                    sc = c
    # smaller windows
    for wi in range(len(sc["windows"])):
        w = sc["windows"][wi]
        need = max([f["start"] + rf.frame_samples(len(f["hex"]) * 4) for f in w["frames"]] + [400])
        for n in (need, need + 240, 2000):
            if n < w["n"] and b.take():
                ws2 = [dict(x) for x in sc["windows"]]
                ws2[wi]["n"] = n
                c = with_windows(ws2)
                if check_premise(c) and fails(c):
                    sc = c
                    break
    return sc
