"""RF side of C19: PPM modulator at 2 samples/us and the bounded stationary
noise model M (DESIGN 6.2).  Everything is a deterministic function of the
scenario (noise realisations come from numpy's frozen legacy MT19937 stream
seeded from the scenario)."""
import numpy as np

from . import refenc as R

PRE = (0, 2, 7, 9)  # preamble pulse sample offsets within 16 samples
SHAPES = ["zero", "const", "uniform", "uniform_hi", "triangular"]


def noise_samples(shape, peak, n, seed):
    if shape == "zero" or peak <= 0:
        return np.zeros(n)
    rs = np.random.RandomState(seed & 0x7FFFFFFF)
    if shape == "const":
        return np.full(n, peak)
    if shape == "uniform":
        return rs.random_sample(n) * peak
    if shape == "uniform_hi":
        return peak * (0.5 + 0.5 * rs.random_sample(n))
    if shape == "triangular":
        return rs.triangular(0.0, peak, peak, n)
    raise ValueError(shape)


def frame_bits(hexstr, flips=()):
    n = len(hexstr) * 4
    v = int(hexstr, 16)
    for f in flips:
        v ^= 1 << (n - 1 - f)
    return [(v >> (n - 1 - k)) & 1 for k in range(n)], ("%0" + str(len(hexstr)) + "X") % v


def pulse_amps(amp, ripple, seed, npulses):
    """Per-pulse amplitudes, kept inside [0.3, 1.4]."""
    if ripple < 0:
        # "wild" per-pulse amplitudes: every pulse anywhere in [0.3, 1.4] (fading
        # within a frame); -2 additionally forces a three-weak-one-strong preamble
        rs = np.random.RandomState((seed ^ 0x3C3C3C) & 0x7FFFFFFF)
        a = 0.3 + 1.1 * rs.random_sample(npulses)
        if ripple <= -2:
            a[:4] = [0.3, 0.3, 0.3, 0.3]
            a[int(rs.randint(0, 4))] = 1.4
        return a
    if ripple <= 0:
        return np.full(npulses, amp)
    rs = np.random.RandomState((seed ^ 0x5A5A5A) & 0x7FFFFFFF)
    a = amp * (1.0 + ripple * (2 * rs.random_sample(npulses) - 1))
    return np.clip(a, 0.3, 1.4)


def modulate_into(buf, start, bits, amps, drop=None):
    """Write one frame (preamble + PPM bits) into buf at sample ``start``."""
    # samples beyond the end of the buffer are simply not transmitted (a frame
    # truncated by the end of the window: the transmission stops there)
    n = len(buf)
    k = 0
    for off in PRE:
        if start + off < n:
            buf[start + off] = amps[k]
        k += 1
    base = start + 16
    for i, b in enumerate(bits):
        pos = base + 2 * i + (0 if b else 1)
        if pos < n and not (drop and drop[0] <= i < drop[0] + drop[1]):
            buf[pos] = amps[k]   # (a dropout leaves both chips of the bit period at noise level)
        k += 1


def frame_samples(nbits):
    return 16 + 2 * nbits


def is_valid(hexstr):
    """What C19 calls a valid frame: DF17 with zero remainder, DF20/21 long,
    DF4/5/11 short."""
    df = R.hex_df(hexstr)
    if df == 17 and len(hexstr) == 28:
        return R.crc_of_hex(hexstr) == 0
    if df in (20, 21) and len(hexstr) == 28:
        return True
    if df in (4, 5, 11) and len(hexstr) == 14:
        return True
    return False


def build_window(win, noise, min_pulse_out=None):
    """win: {"n": samples, "nseed": int, "frames": [{"hex", "start", "amp",
    "ripple", "rseed", "flips": [...]}]} -> (list of floats, expected hex list,
    min pulse amplitude)."""
    n = win["n"]
    # per-window noise level ("pk", non-increasing over a run) or the run's level
    buf = noise_samples(noise["shape"], win.get("pk", noise["peak"]), n, win["nseed"])
    expected = []
    minp = None
    for f in win["frames"]:
        bits, sent = frame_bits(f["hex"], f.get("flips", ()))
        amps = pulse_amps(f["amp"], f.get("ripple", 0.0), f.get("rseed", 0), 4 + len(bits))
        modulate_into(buf, f["start"], bits, amps, f.get("drop"))
        m = float(amps.min())
        minp = m if minp is None else min(minp, m)
        if is_valid(sent) and f["start"] + frame_samples(len(bits)) <= n and not f.get("drop"):
            expected.append(sent)
    return buf, expected, minp
