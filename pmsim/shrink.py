"""Generic budgeted minimisation helpers (ddmin on lists, number shrinking).

``test(candidate) -> bool`` must return True iff the candidate still fails the
*same clause* of the same property."""


import os
import time as _walltime  # wall clock bounds the minimiser's effort only (never its result's validity)


class Budget(object):
    def __init__(self, n, wall_s=None):
        self.left = n
        if wall_s is None:
            wall_s = float(os.environ.get("PMSIM_SHRINK_WALL_S", "45"))
        self.deadline = _walltime.time() + wall_s

    def take(self):
        if self.left <= 0:
            return False
        if _walltime.time() > self.deadline:
            self.left = 0
            return False
        self.left -= 1
        return True


def ddmin_list(items, test, budget, min_len=0):
    """Classic ddmin: returns a sub-list (order preserved) for which test() is
    still True.  test receives a list."""
    items = list(items)
    n = 2
    while len(items) > min_len and budget.left > 0:
        chunk = max(1, len(items) // n)
        reduced = False
        # try removing each chunk
        i = 0
        while i < len(items):
            cand = items[:i] + items[i + chunk:]
            if len(cand) >= min_len and len(cand) < len(items):
                if not budget.take():
                    return items
                if test(cand):
                    items = cand
                    n = max(n - 1, 2)
                    reduced = True
                    continue
            i += chunk
        if not reduced:
            if chunk == 1:
                break
            n = min(len(items), n * 2)
    return items


def shrink_each(items, variants, test, budget):
    """For each position try replacing the element by simpler variants
    (``variants(elem)`` yields candidates, simplest first)."""
    items = list(items)
    for i in range(len(items)):
        for v in variants(items[i]):
            if v == items[i]:
                continue
            if not budget.take():
                return items
            cand = items[:i] + [v] + items[i + 1:]
            if test(cand):
                items = cand
                break
    return items
