"""Seam objects.  Two flavours:

* ``StepClock``  - for the direct rigs (R1a, R2, R4a): a settable clock that the
  script advances; ``time()`` reads it, ``sleep()`` advances it.
* kernel-bound fakes (FakeTime, FakeZmq, SimPipe, SimQueue, SimValue) - for the
  threaded rigs; every method is a seam call into ``pmsim.kernel``.
"""
import pickle
import types

EPOCH0 = 1_700_000_000.0


class StepClock(object):
    """Replaces the module attribute ``time`` of a pyModeS module."""

    def __init__(self, epoch0=EPOCH0):
        self.epoch0 = epoch0
        self.now_us = 0
        self.reads = 0
        self.jumps = {}      # read index -> forward step in us (clock jump / stall between two reads)

    def time(self):
        self.reads += 1
        j = self.jumps.get(self.reads)
        if j:
            self.now_us += j
        return self.epoch0 + self.now_us / 1e6

    def sleep(self, d):
        self.now_us += int(round(d * 1e6))


# ---------------------------------------------------------------------------
# kernel-bound fakes


class SimExit(BaseException):
    """Unwinds a ``while True`` loop of the code under test.  Derives from
    BaseException so that ``except Exception`` in the code does not catch it."""


class FakeTime(object):
    def __init__(self, kernel):
        self.k = kernel

    def time(self):
        return self.k.seam_time()

    def sleep(self, d):
        return self.k.seam_sleep(d)


class ZmqAgain(Exception):
    pass


class FakeZmqSocket(object):
    """ZMQ_STREAM socket as libzmq presents it: each TCP piece surfaces as two
    consecutive frames (5-byte routing id, data); connect/disconnect surface
    as (id, b'').  Multipart messages are atomic."""

    def __init__(self, kernel, net):
        self.k = kernel
        self.net = net
        self.opts = {}
        self.connected = None
        self.closed = False
        self.rcvmore = False

    def setsockopt(self, opt, val):
        self.opts[opt] = val

    set = setsockopt

    def getsockopt(self, opt):
        if opt == FakeZmqModule.RCVMORE:
            return 1 if self.rcvmore else 0
        return self.opts.get(opt, 0)

    get = getsockopt

    def connect(self, addr):
        self.connected = addr
        self.k.seam_connect(self, addr)

    def close(self, linger=None):
        self.closed = True

    def recv(self, flags=0, copy=True, track=False):
        frame, more = self.k.seam_recv(self, flags)
        self.rcvmore = more
        return frame

    def recv_multipart(self, flags=0, copy=True, track=False):
        parts = [self.recv(flags)]
        while self.rcvmore:
            parts.append(self.recv(flags))
        return parts


class FakeZmqModule(object):
    """Stands in for the module global ``zmq`` of pyModeS.extra.tcpclient."""

    STREAM = 11
    LINGER = 17
    RCVTIMEO = 27
    RCVMORE = 13
    SNDMORE = 2
    DONTWAIT = 1
    NOBLOCK = 1

    def __init__(self, kernel, net):
        self.k = kernel
        self.net = net
        self.sockets = []
        self.error = types.SimpleNamespace(Again=ZmqAgain, ZMQError=Exception)
        self.Again = ZmqAgain
        self.ZMQError = Exception
        mod = self

        class _Ctx(object):
            def socket(self_, kind):
                s = FakeZmqSocket(mod.k, mod.net)
                s.kind = kind
                mod.sockets.append(s)
                return s

            @classmethod
            def instance(cls):
                return cls()

            def term(self_):
                pass

        self.Context = _Ctx


class SimPipe(object):
    """One direction of a multiprocessing.Pipe: FIFO of pickled blobs with a
    capacity in messages; a full pipe blocks the sender, an empty one the
    receiver.  Pickling keeps aliasing exactly as a real Pipe does."""

    def __init__(self, kernel, name, capacity):
        self.k = kernel
        self.name = name
        self.capacity = capacity
        self.q = []
        self.sent = 0
        self.received = 0

    def send(self, obj):
        blob = pickle.dumps(obj, protocol=4)
        self.k.seam_pipe_send(self, blob)

    def recv(self):
        blob = self.k.seam_pipe_recv(self)
        return pickle.loads(blob)

    def poll(self, timeout=0.0):
        return self.k.seam_pipe_poll(self)


class SimQueue(object):
    def __init__(self, kernel, name):
        self.k = kernel
        self.name = name
        self.items = []

    def put(self, obj):
        self.k.seam_queue_put(self, obj)

    def empty(self):
        return not self.items

    def get(self):
        return self.items.pop(0)


class SimValue(object):
    def __init__(self, kernel, v=False):
        self.k = kernel
        self._v = v

    @property
    def value(self):
        return self.k.seam_value_get(self)

    @value.setter
    def value(self, v):
        self._v = v
