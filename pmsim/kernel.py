"""Deterministic kernel: simulated clock, timed events, baton-passing tasks on
real threads, sparse choice tape, stalls, event log with digest.

Exactly one thread runs at any instant.  A task re-enters the kernel only by
calling a seam (recv, send, poll, time, sleep, put, read_samples, .value); at
every seam the kernel logs the event, applies the effect, computes the runnable
set and lets the choice tape pick who continues (direct hand-off task->task).
Execution draws no random numbers and reads no real clock.
"""
import heapq
import threading

from .fakes import SimExit, ZmqAgain, EPOCH0
from .util import EventLog, crc32


class Task(object):
    def __init__(self, k, name, fn, idx):
        self.k = k
        self.name = name
        self.fn = fn
        self.idx = idx
        self.sem = threading.Semaphore(0)
        self.done = False
        self.started = False
        self.wait = None          # None | (cond, deadline_us|None, label)
        self.frozen_until = 0
        self.crash = None
        self.steps = 0
        self.thread = None
        self.op_counts = {}
        self.op_stalls = {}       # (op, nth) -> dur_us: pre-emption right at that seam

    def ready(self, now):
        if self.done:
            return False
        if now < self.frozen_until:
            return False
        if self.wait is None:
            return True
        cond, deadline, _ = self.wait
        if cond is not None and cond():
            return True
        if deadline is not None and now >= deadline:
            return True
        return False


class Kernel(object):
    def __init__(self, tape=None, step_cap=50000, t_end_us=None, cpu_us=0, sleep_quantum_us=0,
                 epoch0=EPOCH0, keep_log=False):
        self.now_us = 0
        self.heap = []
        self.seq = 0
        self.tasks = []
        self.cur = None
        self.log = EventLog(keep=keep_log)
        self.tape = dict((int(k), int(v)) for k, v in (tape or {}).items())
        self.choice_points = 0
        self.switches = 0
        self.steps = 0
        self.step_cap = step_cap
        self.t_end_us = t_end_us
        self.cpu_us = cpu_us
        self.sleep_quantum_us = sleep_quantum_us
        self.epoch0 = epoch0
        self.stopping = False
        self.stop_reason = None
        self.main = threading.Semaphore(0)
        self.sched = []            # (task, op) at scheduling points (for the history signature)
        self.quiescent = None      # optional callable: True when the rig considers the run finished
        self._running = False
        self.counters = {}

    # -- setup ------------------------------------------------------------
    def spawn(self, name, fn):
        t = Task(self, name, fn, len(self.tasks))
        self.tasks.append(t)
        return t

    def at(self, t_us, fn, label="event"):
        self.seq += 1
        heapq.heappush(self.heap, (int(t_us), self.seq, label, fn))

    def stall(self, task, at_us, dur_us):
        def do():
            task.frozen_until = max(task.frozen_until, self.now_us + int(dur_us))
            self.count("fault.stall_" + task.name)
            self.log.add("stall", self.now_us, task.name, int(dur_us))
        self.at(at_us, do, "stall")

    def stall_at_op(self, task, op, nth, dur_us):
        """Freeze ``task`` for ``dur_us`` when it makes its nth seam call ``op``
        (descheduled at that program point, between two seams of one loop pass)."""
        task.op_stalls[(op, int(nth))] = int(dur_us)

    def spawned_pending(self):
        """True while a thread spawned by the code under test has not finished."""
        return any((t.fn is None and not t.done) for t in self.tasks)

    def count(self, key, n=1):
        self.counters[key] = self.counters.get(key, 0) + n

    # -- running ------------------------------------------------------------
    def _thread_main(self, task):
        task.sem.acquire()
        try:
            if not self.stopping:
                task.fn()
        except SimExit:
            pass
        except BaseException as e:  # the code under test let something escape
            task.crash = e
            self.log.add("crash", self.now_us, task.name, type(e).__name__, str(e)[:200])
        finally:
            task.done = True
            task.wait = None
            self._leave(task)

    def _leave(self, task):
        """Task thread is finishing: pass the baton on or wake main."""
        alive = [t for t in self.tasks if not t.done]
        if not alive:
            self.main.release()
            return
        nxt = self._choose(None)
        if nxt is None:
            self.main.release()
            return
        self.cur = nxt
        nxt.sem.release()

    def _adopt_thread_start(self, orig_start):
        """Threads started by the code under test become kernel tasks: the new
        thread waits for the baton before it runs a single line, so the kernel
        (not the OS) decides its interleaving with everybody else."""
        kernel = self

        def start(thread_self, *a, **k):
            cur = kernel.cur
            if (kernel._running and cur is not None and threading.current_thread() is cur.thread
                    and not getattr(thread_self, "_pmsim_owned", False)):
                kernel.count("probe.thread_spawned_by_code_under_test")
                task = Task(kernel, "spawned%d" % len(kernel.tasks), None, len(kernel.tasks))
                task.thread = thread_self
                task.started = True
                kernel.tasks.append(task)
                orig_run = thread_self.run

                def run_under_kernel():
                    task.sem.acquire()
                    try:
                        if not kernel.stopping:
                            orig_run()
                    except SimExit:
                        pass
                    except BaseException as e:
                        task.crash = e
                    finally:
                        task.done = True
                        task.wait = None
                        kernel._leave(task)

                thread_self.run = run_under_kernel
                kernel.log.add("spawn", kernel.now_us, cur.name, task.name)
            return orig_start(thread_self, *a, **k)

        return start

    def run(self):
        orig_start = threading.Thread.start
        for t in self.tasks:
            t.thread = threading.Thread(target=self._thread_main, args=(t,), name="pmsim-" + t.name, daemon=True)
            t.thread._pmsim_owned = True
            t.thread.start()
        first = self._choose(None)
        if first is None:
            return
        self._running = True
        threading.Thread.start = self._adopt_thread_start(orig_start)
        try:
            self.cur = first
            first.sem.release()
            self.main.acquire()
        finally:
            threading.Thread.start = orig_start
            self._running = False
        for t in self.tasks:
            if t.thread is not None:
                t.thread.join(timeout=30)

    def _begin_stop(self, reason):
        if not self.stopping:
            self.stopping = True
            self.stop_reason = reason
            self.log.add("stop", self.now_us, reason)

    def _fire_due(self):
        while self.heap and self.heap[0][0] <= self.now_us:
            _, _, label, fn = heapq.heappop(self.heap)
            fn()

    def _choose(self, cur):
        """Pick the next task to run (may be ``cur``).  Advances simulated time
        when nobody is runnable."""
        while True:
            if self.stopping:
                for t in self.tasks:
                    if not t.done:
                        return t
                return None
            self._fire_due()
            if self.quiescent is not None and self.quiescent():
                self._begin_stop("quiescent")
                continue
            runnable = [t for t in self.tasks if t.ready(self.now_us)]
            if runnable:
                if cur is not None and cur in runnable:
                    runnable.remove(cur)
                    runnable.insert(0, cur)
                if len(runnable) == 1:
                    return runnable[0]
                c = self.tape.get(self.choice_points, 0)
                self.choice_points += 1
                pick = runnable[c % len(runnable)]
                if pick is not cur:
                    self.switches += 1
                return pick
            # nobody runnable: jump the clock
            cand = []
            if self.heap:
                cand.append(self.heap[0][0])
            for t in self.tasks:
                if t.done:
                    continue
                if t.frozen_until > self.now_us:
                    cand.append(t.frozen_until)
                if t.wait is not None and t.wait[1] is not None:
                    cand.append(max(t.wait[1], t.frozen_until))
            if not cand:
                self._begin_stop("deadlock" if any(not t.done for t in self.tasks) else "all-done")
                continue
            nxt = min(cand)
            if self.t_end_us is not None and nxt > self.t_end_us:
                self.now_us = max(self.now_us, self.t_end_us)
                self._begin_stop("t_end")
                continue
            self.now_us = max(self.now_us, nxt)

    def _seam(self, op, payload=None, cond=None, deadline=None):
        """Generic seam entry, executed on the calling task's thread (which
        holds the baton).  Returns True if ``cond`` holds on resumption, False
        on time-out."""
        t = self.cur
        if t is None or threading.current_thread() is not t.thread:
            # a thread the kernel does not know reached a seam: it cannot be
            # scheduled deterministically
            raise RuntimeError("pmsim: seam %r called from a thread outside the kernel's control" % (op,))
        if self.stopping:
            raise SimExit()
        self.steps += 1
        t.steps += 1
        self.now_us += self.cpu_us
        self.log.add(self.steps, self.now_us, t.name, op, payload)
        if self.steps >= self.step_cap:
            self._begin_stop("step_cap")
            raise SimExit()
        if self.t_end_us is not None and self.now_us >= self.t_end_us:
            self._begin_stop("t_end")
            raise SimExit()
        if len(self.sched) < 4000:
            self.sched.append((t.idx, op))
        if t.op_stalls:
            n = t.op_counts.get(op, 0) + 1
            t.op_counts[op] = n
            d = t.op_stalls.get((op, n))
            if d:
                t.frozen_until = max(t.frozen_until, self.now_us + d)
                self.count("fault.preempted_at_" + op.split(":")[0] + "_" + t.name)
                self.log.add("preempt", self.now_us, t.name, op, d)
        t.wait = (cond, deadline, op) if (cond is not None or deadline is not None) else None
        if t.wait is not None and not t.ready(self.now_us):
            self.count("blocked." + op)
        nxt = self._choose(t)
        if nxt is not t:
            self.cur = nxt
            nxt.sem.release()
            t.sem.acquire()
        if self.stopping:
            t.wait = None
            raise SimExit()
        ok = True
        if t.wait is not None:
            c = t.wait[0]
            ok = bool(c()) if c is not None else False
        t.wait = None
        return ok

    # -- concrete seams -------------------------------------------------------
    def seam_time(self):
        self._seam("time")
        return self.epoch0 + self.now_us / 1e6

    def seam_sleep(self, d):
        d_us = int(round(max(d, 0) * 1e6))
        d_us = max(d_us, self.sleep_quantum_us)
        self._seam("sleep", d_us, cond=None, deadline=self.now_us + d_us)

    def seam_connect(self, sock, addr):
        self._seam("connect", addr)
        if sock.net is not None:
            sock.net.on_connect(sock)

    def seam_recv(self, sock, flags):
        net = sock.net
        net.on_recv_enter(sock)
        to = sock.opts.get(27, -1)  # RCVTIMEO (ms)
        deadline = None if to is None or to < 0 else self.now_us + int(to) * 1000
        if flags & 1:
            deadline = self.now_us
        ok = self._seam("recv", None, cond=lambda: bool(net.inq), deadline=deadline)
        if not ok:
            self.count("fault.recv_timeout_Again")
            raise ZmqAgain("Resource temporarily unavailable")
        frame, more = net.inq.pop(0)
        net.on_recv_return(sock, frame, more)
        self.log.add("recv-ret", crc32(frame), len(frame), more)
        return frame, more

    def seam_pipe_send(self, pipe, blob):
        full = len(pipe.q) >= pipe.capacity
        if full:
            self.count("fault.pipe_full_block_" + pipe.name)
        self._seam("send:" + pipe.name, crc32(blob), cond=lambda: len(pipe.q) < pipe.capacity)
        pipe.q.append(blob)
        pipe.sent += 1
        if getattr(pipe, "tap", None) is not None:
            pipe.tap(blob)

    def seam_pipe_recv(self, pipe):
        self._seam("recv:" + pipe.name, None, cond=lambda: bool(pipe.q))
        pipe.received += 1
        return pipe.q.pop(0)

    def seam_pipe_poll(self, pipe):
        self._seam("poll:" + pipe.name)
        return bool(pipe.q)

    def seam_queue_put(self, q, obj):
        self._seam("put:" + q.name, crc32(repr(obj)[:200]))
        q.items.append(obj)

    def seam_value_get(self, v):
        self._seam("value")
        return v._v

    def seam_generic(self, op, payload=None):
        self._seam(op, payload)
