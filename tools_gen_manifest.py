#!/venv/bin/python
"""Regenerates MANIFEST.json from the table below (kept in one place so the
manifest can never drift from what ./check implements)."""
import json, os

NA = {
 "C01": "pure function of one frame (crc/crc_legacy): no schedule, clock, I/O, fault or history can change its result; error-pattern coverage is algebra/enumeration, not seeded schedule search. Its one stateful consumer (rtlreader._check_msg) is exercised inside C19.",
 "C02": "pure function icao(msg) of one string; nothing to schedule or fault. Its system-level consequence (same table key for either hex case, Comm-B merge) is oracle clause C17.e.",
 "C03": "pure function of two frames and two timestamps passed as arguments; no clock read, no state between calls. Trajectory-level consequences are seen only along simulated tracks in C17.f.",
 "C04": "pure function of one frame and a reference position; no state, clock or I/O.",
 "C05": "pure function of two frames, two timestamps and a receiver position; no state, clock or I/O (its equator/antimeridian behaviour is reachable as C17 histories, but the property itself is a forall-input claim).",
 "C06": "pure real->int function cprNL; nothing to simulate.",
 "C07": "finite pure domain (8192+4096 codes): exhaustive enumeration is the right tool, there is no schedule/fault space.",
 "C08": "pure bit permutations and slices of one frame (squawk/idcode/surv/allcall).",
 "C09": "pure slices and arithmetic on one frame (velocity decoders).",
 "C10": "pure table look-ups on one frame (callsign/category).",
 "C11": "pure slices x scale on one Comm-B payload.",
 "C12": "pure predicates on one payload (+ reference scalars); reached incidentally through the Comm-B path of C17 but not decided by it.",
 "C13": "pure slices and look-up tables (TC19/28/29/31 quality indicators).",
 "C14": "forall-input totality claim about pure decoders; the only place an escaping exception gains temporal meaning is Decode.run, which is clause C17.a/C17.g.",
 "C15": "differential claim between two builds of the same pure functions; no run-time nondeterminism to control, and Cython is not installed so c_common cannot be built from the working tree here.",
 "C18": "pure bit-serial division and slices of one uplink frame.",
 "C20": "closed-form numerics (aero): no state, clock, I/O or concurrency.",
}

PY = "/venv/bin/python"
def check(pid, text, note, tech, ref):
    return {
        "property_id": pid,
        "quick_cmd": f"{PY} /verif/check {pid} --tier quick",
        "thorough_cmd": f"{PY} /verif/check {pid} --tier thorough",
        "evidence_file": f"/verif/evidence/{pid}.json",
        "replay_cmd_template": f"{PY} /verif/check replay {{path}}",
        "engine": "pmsim",
        "level_claimed": {"category": "exploration", "text": text, "design_ref": ref},
        "level_note": note,
        "technique": tech,
    }

CHECKS = []
if os.path.exists("/verif/pmsim/ENABLED"):
    en = open("/verif/pmsim/ENABLED").read().split()
else:
    en = []
if "C16" in en:
    CHECKS.append(check("C16",
      "Seeded deterministic simulation of the real TcpClient parsers and the real NetSource.run/Decode.run loops: generated Mode S frame streams are delivered under seeded segmentations (all single cuts, sampled pairs, multi-cuts, 1-byte dribble, targeted cuts inside escapes), socket time-outs, ZMQ_STREAM identity frames, pipe back-pressure and seeded task interleavings; an offset-based reference model decides after every delivery which frames must / may have been handed out. Sampling, not enumeration: a clean batch is evidence.",
      "Trusted: the wire serialisers and offset model in pmsim/wire.py, the FakeZmq STREAM stub (behaviour observed from libzmq 4.3.5 on loopback), SimPipe pickling semantics. TCP is modelled as lossless and in-order (no byte loss/dup/reorder injected - the statement is about a TCP byte stream).",
      "deterministic simulation: seeded delivery-history + scheduler search over real parser/loop code, offset reference model", "DESIGN.md section 4"))
if "C17" in en:
    CHECKS.append(check("C17",
      "Seeded deterministic simulation of the real Decode.process_raw / Decode.run state machine over generated message histories: a world model of aircraft trajectories (independent CPR/ADS-B/Comm-B encoders) emits frames, a seeded channel loses/duplicates/delays/batches them, a simulated clock supplies tnow (eviction boundary, jumps); twin upper/lower-case instances are compared after every call against a reference model (staleness sandwich, Comm-B gating, case invariance, 0.001 deg accuracy); the pipeline rig runs NetSource.run || Decode.run on a seeded scheduler. Sampling, not enumeration.",
      "Trusted: independent encoders in pmsim/refenc.py (CRC, CPR, ME builders), trajectory model, envelope |lat|<=86.4 deg, ground speed <=175 kt, longitude compared mod 360, grey zone (59,61] s adopted from the implementation.",
      "deterministic simulation: seeded message-history/clock/channel-fault search against an executable reference table model", "DESIGN.md section 5"))
if "C19" in en:
    CHECKS.append(check("C19",
      "Seeded deterministic simulation of the real RtlReader sample-buffer processor (and the RtlSdrSource.run read loop over a fake device): sequences of buffers with PPM-modulated valid frames, corrupted DF17 frames and bounded stationary noise are processed on one instance so noise floor and left-over samples carry over; oracle: returned frames == valid frames wholly inside each window, never a DF17 with non-zero CRC. Sampling, not enumeration.",
      "Trusted: PPM modulator and noise model M in pmsim/rf.py (bounded stationary noise >=10 dB below the weakest pulse; frames wholly inside a processing window), reference CRC.",
      "deterministic simulation: seeded RF-history (buffers, offsets, amplitudes, noise, bit-error faults) search against exact expected output", "DESIGN.md section 6"))

M = {
 "version": 1,
 "setup_cmd": f"{PY} /verif/check setup",
 "hooks": {
   "guard": "PYMODES_VERIF",
   "enable": "no source hook exists: every seam is reachable from outside (module attributes pyModeS.extra.tcpclient.zmq/.time, pyModeS.streamer.decode.time/.os/.open/.datetime, pyModeS.extra.rtlreader.time/.read_size/.buffer_size, a fake rtlsdr module in sys.modules, pipe/queue/flag arguments of run(), threading.Thread.start wrapped while a run is active). Checks put /repo/src first on sys.path and import the working tree directly.",
   "baseline_off_cmd": "cd /repo && /venv/bin/python -m pytest -ra -q -p no:cacheprovider --timeout=900 --continue-on-collection-errors",
   "source_commits": [],
   "add_only": True,
 },
 "engines": [{
   "name": "pmsim", "path": "/verif/pmsim",
   "serves_properties": [c["property_id"] for c in CHECKS],
   "kind_free_text": "deterministic discrete-event simulator (seed -> explicit JSON scenario -> execution without PRNG), baton-passing real threads at seam calls, fake zmq/time/pipes/rtlsdr, reference encoders and models, ddmin minimiser, fresh-interpreter replay",
 }],
 "checks": CHECKS,
 "notes": "Three properties (C16, C17, C19) live in the streaming part of pyModeS and are decided by deterministic simulation with fault injection; the other seventeen are universally quantified claims about pure functions and are listed as not applicable to this technique (DESIGN.md sections 2 and 7). Exit codes: 0 held (possibly with KNOWN-FINDING lines), 1 VIOLATION, 2 harness fault.",
 "not_applicable": [{"property_id": k, "reason": v} for k, v in sorted(NA.items()) ] ,
}
json.dump(M, open("/verif/MANIFEST.json", "w"), indent=1)
print("wrote MANIFEST.json with checks:", [c["property_id"] for c in CHECKS])
